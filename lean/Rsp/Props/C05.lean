/-
  Property C05 on the World model of radsrv: only authentic, acceptable requests
  are forwarded or answered; return value 0 (stream transports close) exactly for
  a parse/authentication failure.
-/
import Rsp.Props.Parse
import Rsp.Model.World
import Rsp.Spec.Emit
namespace Rsp.Props.C05
open Rsp Rsp.Radmsg Rsp.World Rsp.Spec

/-- what a client or server can observe of the proxy: the outstanding tables and the reply queues -/
def slotsOf (w : World) : List (List Slot) := w.servers.map (·.slots)
def queuesOf (w : World) : List (List Nat) := w.clients.map (·.replyq)

theorem freerq_servers (w : World) (o : Nat) : (freerq w o).servers = w.servers ∧ (freerq w o).clients = w.clients := by
  unfold freerq; cases getRq w o with
  | none => exact ⟨rfl, rfl⟩
  | some r => simp only; split <;> exact ⟨rfl, rfl⟩

theorem setRq_servers (w : World) (o : Nat) (r : Rq) : (setRq w o r).servers = w.servers ∧ (setRq w o r).clients = w.clients := ⟨rfl, rfl⟩
theorem updRq_servers (w : World) (o : Nat) (f : Rq → Rq) : (updRq w o f).servers = w.servers ∧ (updRq w o f).clients = w.clients := ⟨rfl, rfl⟩

/-- a code the proxy does not act on: the request object is released and nothing else happens -/
theorem core_ignores_other_codes (w : World) (o ci : Nat) (cc : CliConf) (m0 : Msg)
    (h40 : m0.code ≠ 40) (h43 : m0.code ≠ 43) (h1 : m0.code ≠ 1) (h12 : m0.code ≠ 12) (h4 : m0.code ≠ 4) :
    radsrvCore w o ci cc m0 = freerq (updRq w o fun r => { r with msg := some m0, rqid := m0.id, rqauth := m0.auth }) o := by
  unfold radsrvCore
  simp only [h40, h43, h1, h12, h4, if_false, ne_eq, not_false_eq_true, and_self, if_true]

/-- **C05 (Disconnect / CoA).** a Disconnect-Request is answered with Disconnect-NAK, a CoA-Request with CoA-NAK, each carrying
    Error-Cause 406 (Unsupported Extension) - and that is all: the request is released, no identifier of any server is taken -/
theorem core_naks_disconnect_and_coa (w : World) (o ci : Nat) (cc : CliConf) (m0 : Msg) (h : m0.code = 40 ∨ m0.code = 43) :
    radsrvCore w o ci cc m0 =
      freerq (respond (updRq w o fun r => { r with msg := some m0, rqid := m0.id, rqauth := m0.auth }) o
                (if m0.code = 40 then 42 else 45) (some { t := 101, v := [0, 0, 1, 150] }) true) o := by
  unfold radsrvCore
  cases h with
  | inl h => simp only [h, if_true]; rfl
  | inr h =>
    have : ¬ m0.code = 40 := by rw [h]; decide
    simp only [this, h, if_false, if_true]; rfl

theorem error_cause_406 : beEnc 4 406 = [0, 0, 1, 150] := by decide

/-- **C05 (acted upon ⇒ acceptable).** For every state, every client block and
    every byte string handed to `radsrv`: if any outstanding table or any reply
    queue changes, then the packet's length field equals the octets received, its
    attributes tile it exactly, every Message-Authenticator verifies under the
    client's secret, an Accounting-Request's authenticator verifies, and the code
    is one of Access-Request, Accounting-Request, Status-Server, Disconnect-Request,
    CoA-Request. -/
theorem radsrv_acts_only_on_acceptable (w : World) (o : Nat) (rq : Rq) (pkt : Bytes)
    (hrq : getRq w o = some rq) (hbuf : rq.buf = some pkt)
    (hch : slotsOf (radsrv w o).1 ≠ slotsOf w ∨ queuesOf (radsrv w o).1 ≠ queuesOf w) :
    requestAcceptable w.H (cliConfOf w (rq.frm.getD 0)).secret pkt = true := by
  unfold radsrv at hch
  simp only [hrq, hbuf, Option.getD_some] at hch
  have hp := Parse.parse_meets_spec w.H pkt (some (cliConfOf w (rq.frm.getD 0)).secret) none
  cases hparse : parse w.H pkt (some (cliConfOf w (rq.frm.getD 0)).secret) none with
  | none =>
    simp only [hparse] at hch
    exfalso
    rcases hch with h | h
    · apply h; unfold slotsOf; rw [(freerq_servers _ _).1]; rfl
    · apply h; unfold queuesOf; rw [(freerq_servers _ _).2]; rfl
  | some m0 =>
    rw [hparse] at hp
    simp only [hparse] at hch
    by_cases hmi : m0.macInvalid = true
    · simp only [hmi, if_true] at hch
      exfalso
      rcases hch with h | h
      · apply h; unfold slotsOf; rw [(freerq_servers _ _).1]; rfl
      · apply h; unfold queuesOf; rw [(freerq_servers _ _).2]; rfl
    · have hmi' : m0.macInvalid = false := by simpa using hmi
      simp only [hmi', Bool.false_eq_true, if_false] at hch
      simp only [parseAcceptOk, Bool.and_eq_true, beq_iff_eq] at hp
      obtain ⟨⟨⟨⟨⟨⟨hwf, hau⟩, hcode⟩, _⟩, _⟩, _⟩, hmac⟩ := hp
      rw [hmi'] at hmac
      unfold requestAcceptable codeOf
      rw [hwf, hau, ← hmac, ← hcode]
      simp only [Bool.not_false, Bool.and_self, Bool.true_and]
      -- the code: otherwise radsrvCore only releases the request object
      apply Decidable.byContradiction
      intro hnot
      simp only [Bool.or_eq_true, decide_eq_true_eq, not_or] at hnot
      obtain ⟨⟨⟨⟨h1, h4⟩, h12⟩, h40⟩, h43⟩ := hnot
      rw [core_ignores_other_codes _ _ _ _ _ h40 h43 h1 h12 h4] at hch
      rcases hch with h | h
      · apply h; unfold slotsOf; rw [(freerq_servers _ _).1]; rfl
      · apply h; unfold queuesOf; rw [(freerq_servers _ _).2]; rfl

/-- **C05 (closing the connection).** `radsrv` returns 0 — upon which the stream
    transports close the connection — exactly when the packet fails parsing /
    authentication or carries an invalid Message-Authenticator. -/
theorem radsrv_ret0_iff_invalid (w : World) (o : Nat) (rq : Rq) (pkt : Bytes)
    (hrq : getRq w o = some rq) (hbuf : rq.buf = some pkt) :
    (radsrv w o).2 = 0 ↔
      (match parse w.H pkt (some (cliConfOf w (rq.frm.getD 0)).secret) none with
       | none => True
       | some m => m.macInvalid = true) := by
  unfold radsrv
  simp only [hrq, hbuf, Option.getD_some]
  cases parse w.H pkt (some (cliConfOf w (rq.frm.getD 0)).secret) none with
  | none => simp
  | some m0 =>
    by_cases hmi : m0.macInvalid = true <;> simp [hmi]

/-- and by the parser theorem, return 0 means: malformed, or an authenticator check fails, or a
    Message-Authenticator does not verify -/
theorem radsrv_ret0_spec (w : World) (o : Nat) (rq : Rq) (pkt : Bytes)
    (hrq : getRq w o = some rq) (hbuf : rq.buf = some pkt) (h0 : (radsrv w o).2 = 0) :
    let sec := (cliConfOf w (rq.frm.getD 0)).secret
    wellFormedLoose pkt = false ∨ authChecksPass w.H pkt (some sec) none = false ∨ expectMacInvalid w.H pkt (some sec) none = true := by
  intro sec
  have h := (radsrv_ret0_iff_invalid w o rq pkt hrq hbuf).mp h0
  have hp := Parse.parse_meets_spec w.H pkt (some sec) none
  cases hparse : parse w.H pkt (some sec) none with
  | none =>
    rw [hparse] at hp
    simp only [parseRejectOk, Bool.or_eq_true, Bool.not_eq_true'] at hp
    rcases hp with h1 | h1
    · left; exact h1
    · right; left; exact h1
  | some m =>
    rw [hparse] at hp h
    simp only [parseAcceptOk, Bool.and_eq_true, beq_iff_eq] at hp
    right; right
    rw [← hp.2]; exact h

end Rsp.Props.C05
