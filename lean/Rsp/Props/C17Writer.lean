/-
  Property C17 for the client writer (`clientwr`) as a whole, for the allocation of request objects, and for every
  history of operations: the counts are right after every operation of every history.
-/
import Rsp.Props.C17Tame
namespace Rsp.Props.C17
open Rsp Rsp.World Rsp.Refs

/-! ### server updates that keep each slot's request -/

/-- a server update after which every request is referenced by as many slots as before -/
theorem updSrv_samerefs_inv (w : World) (fl : Nat → Nat) (si : Nat) (f : Server → Server)
    (hf : ∀ s, getSrv w si = some s → ∀ o, srvRefs o (f s) = srvRefs o s) (h : Inv w fl) : Inv (updSrv w si f) fl := by
  apply inv_move w _ fl fl h (fun o => getRq_updSrv _ _ _ _)
  intro o
  cases hs : getSrv w si with
  | none => unfold updSrv; unfold getSrv at hs; rw [hs]
  | some s =>
    have := holders_updSrv w si f s o hs
    rw [hf s hs o] at this
    omega

/-- rewriting the bookkeeping fields of slot `i` (tries, expiry) without touching which request it holds -/
theorem srvRefs_touch (s : Server) (i : Nat) (sl' : Slot) (hrq : sl'.rq = (slotOf s i).rq) (o : Nat) :
    ((s.slots.set i sl').filter (·.rq == some o)).length = (s.slots.filter (·.rq == some o)).length := by
  by_cases hi : i < s.slots.length
  · have := count_set s.slots i sl' (·.rq == some o) hi
    have e : s.slots[i] = slotOf s i := by
      unfold slotOf; rw [List.getD_eq_getElem?_getD, List.getElem?_eq_getElem hi]; rfl
    simp only [e, hrq] at this
    omega
  · rw [List.set_eq_of_length_le (by omega)]

/-! ### one pass of the writer -/

theorem updSrv_updSrv (w : World) (si : Nat) (f g : Server → Server) :
    updSrv (updSrv w si f) si g = updSrv w si (fun s => g (f s)) := by
  unfold updSrv
  cases hs : w.servers[si]? with
  | none => simp only [hs]
  | some s =>
    simp only [setSrv]
    have hlt : si < w.servers.length := by
      rcases Nat.lt_or_ge si w.servers.length with h | h
      · exact h
      · rw [List.getElem?_eq_none h] at hs; cases hs
    simp [List.getElem?_set, hlt, List.set_set]

theorem event_inv (w : World) (fl : Nat → Nat) (e : String) (h : Inv w fl) : Inv (event w e) fl :=
  same_inv w _ fl rfl rfl rfl rfl h

theorem incLost_slots (s : Server) : (incLost s).slots = s.slots := by unfold incLost; split <;> rfl
theorem incLost_nextid (s : Server) : (incLost s).nextid = s.nextid := by unfold incLost; split <;> rfl
theorem lossOnAbandon_slots (s : Server) (b : Bool) : (lossOnAbandon s b).slots = s.slots := by
  unfold lossOnAbandon
  repeat' split
  all_goals first | rfl | exact incLost_slots s
theorem lossOnAbandon_nextid (s : Server) (b : Bool) : (lossOnAbandon s b).nextid = s.nextid := by
  unfold lossOnAbandon
  repeat' split
  all_goals first | rfl | exact incLost_nextid s

/-- two writes to slot `i`, or one: the request the slot holds is what `sl` held -/
theorem touch2_inv (w : World) (fl : Nat → Nat) (si i : Nat) (s : Server) (hs : getSrv w si = some s) (f : Server → Server)
    (sl' : Slot) (hrq : sl'.rq = (slotOf s i).rq) (hf : (f s).slots = s.slots.set i sl') (h : Inv w fl) : Inv (updSrv w si f) fl := by
  apply updSrv_samerefs_inv w fl si f _ h
  intro s' hs' o
  rw [hs] at hs'; cases hs'
  unfold srvRefs
  rw [hf]
  exact srvRefs_touch s i sl' hrq o

attribute [local irreducible] World.freerqoutdata World.slotDecision in
theorem writerSlot_inv (w : World) (fl : Nat → Nat) (si : Nat) (doResend : Bool) (i : Nat) (s : Server) (rq : Rq)
    (hs : getSrv w si = some s) (h : Inv w fl) : Inv (writerSlot w si doResend i s (slotOf s i) rq) fl := by
  unfold writerSlot
  simp only
  generalize slotDecision doResend _ (slotOf s i) _ s.conf.retryCount s.conf.retryInterval = act
  cases act with
  | wait =>
    simp only [updSrv_updSrv]
    exact touch2_inv w fl si i s hs _ { slotOf s i with tries := triesAfterReset doResend (slotOf s i).tries } rfl rfl h
  | dropProbe =>
    simp only [updSrv_updSrv]
    apply freerqoutdata_inv
    exact touch2_inv w fl si i s hs _ { slotOf s i with tries := triesAfterReset doResend (slotOf s i).tries } rfl rfl h
  | abandon =>
    simp only [updSrv_updSrv]
    apply freerqoutdata_inv
    refine touch2_inv w fl si i s hs _ { slotOf s i with tries := triesAfterReset doResend (slotOf s i).tries } rfl ?_ h
    rw [lossOnAbandon_slots]
  | send tries' expiry =>
    simp only [updSrv_updSrv]
    split
    · apply event_inv
      exact touch2_inv w fl si i s hs _ { slotOf s i with tries := tries', expiry := expiry } rfl (by simp [List.set_set]) h
    · apply updSrv_noslots_inv _ fl si _ incLost_slots
      apply event_inv
      exact touch2_inv w fl si i s hs _ { slotOf s i with tries := tries', expiry := expiry } rfl (by simp [List.set_set]) h

theorem writerScan_inv (fuel : Nat) (w : World) (fl : Nat → Nat) (si : Nat) (doResend : Bool) (i : Nat) (h : Inv w fl) :
    Inv (writerScan w si doResend fuel i) fl := by
  induction fuel generalizing w i with
  | zero => exact h
  | succ n ih =>
    unfold writerScan
    cases hs : getSrv w si with
    | none => exact h
    | some s =>
      simp only
      split
      · exact ih _ _ (writerSlot_inv w fl si doResend i s _ hs h)
      · exact ih _ _ h

/-! ### allocation -/

theorem getRq_append_of_some (heap : List (Nat × Rq)) (x : Nat × Rq) (o : Nat) (r : Rq)
    (h : (heap.find? (·.1 = o)).map (·.2) = some r) : ((heap ++ [x]).find? (·.1 = o)).map (·.2) = some r := by
  rw [List.find?_append]
  cases hf : heap.find? (·.1 = o) with
  | none => simp [hf] at h
  | some p => simpa [hf] using h

theorem getRq_newrequest_old (w : World) (o : Nat) (ho : o ≠ w.nextOrd) : getRq (newrequest w).1 o = getRq w o := by
  unfold newrequest getRq
  simp only
  rw [List.find?_append]
  cases hf : w.heap.find? (·.1 = o) with
  | some p => simp
  | none =>
    simp only [Option.none_or, Option.map_none, List.find?_cons, List.find?_nil]
    have : decide (w.nextOrd = o) = false := by simp; exact fun h => ho h.symm
    simp [this]

theorem getRq_newrequest_new (w : World) (f : Fresh w) :
    getRq (newrequest w).1 w.nextOrd = some { created := w.now } := by
  have hnone : getRq w w.nextOrd = none := by
    cases hr : getRq w w.nextOrd with
    | none => rfl
    | some r => have := f w.nextOrd (by rw [hr]; rfl); omega
  unfold newrequest getRq
  simp only
  unfold getRq at hnone
  rw [List.find?_append]
  cases hf : w.heap.find? (·.1 = w.nextOrd) with
  | some p => simp [hf] at hnone
  | none => simp

/-- **allocating a request object**: the new object has count 1, held by the code that asked for it -/
theorem newrequest_inv (w : World) (fl : Nat → Nat) (h : Inv w fl) (f : Fresh w) :
    Inv (newrequest w).1 (fun x => fl x + one w.nextOrd x) := by
  have hnone : getRq w w.nextOrd = none := by
    cases hr : getRq w w.nextOrd with
    | none => rfl
    | some r => have := f w.nextOrd (by rw [hr]; rfl); omega
  have hh : ∀ o, holders (newrequest w).1 o = holders w o := fun o => rfl
  refine ⟨?_, ?_, ?_⟩
  · intro o r hr
    rw [hh]
    by_cases ho : o = w.nextOrd
    · subst ho
      rw [getRq_newrequest_new w f] at hr
      cases hr
      have := h.dead _ hnone
      simp [one, this.1, this.2]
    · rw [getRq_newrequest_old w o ho] at hr
      have := h.refs o r hr
      simp [one, ho]; exact this
  · intro o r hr
    by_cases ho : o = w.nextOrd
    · subst ho
      rw [getRq_newrequest_new w f] at hr
      cases hr; exact Nat.le_refl 1
    · rw [getRq_newrequest_old w o ho] at hr; exact h.pos o r hr
  · intro o hr
    by_cases ho : o = w.nextOrd
    · subst ho; rw [getRq_newrequest_new w f] at hr; cases hr
    · rw [getRq_newrequest_old w o ho] at hr
      rw [hh]
      have := h.dead o hr
      simp [one, ho, this.1, this.2]

theorem tame_newrequest (w : World) : Tame w (newrequest w).1 := by
  refine ⟨?_, fun ci c' h => ⟨c', h, rfl⟩, fun si s' h => ⟨s', h, rfl, id⟩, Nat.le_succ _⟩
  intro o hl
  by_cases ho : o = w.nextOrd
  · right; subst ho; exact ⟨Nat.le_refl _, Nat.lt_succ_self _⟩
  · left; rw [getRq_newrequest_old w o ho] at hl; exact hl

/-! ### the writer as a whole -/

/-- everything the whole-history theorem carries from state to state -/
structure Good (w : World) : Prop where
  inv : Inv w (fun _ => 0)
  wf : WF w
  fresh : Fresh w

theorem Good.of {w w' : World} (g : Good w) (hi : Inv w' (fun _ => 0)) (ht : Tame w w') : Good w' :=
  ⟨hi, ht.wf g.wf, ht.fresh g.fresh⟩

theorem tame_event (w : World) (e : String) : Tame w (event w e) := tame_same w _ rfl rfl rfl

attribute [local irreducible] World.freerqoutdata World.slotDecision in
theorem tame_writerSlot (w : World) (si : Nat) (doResend : Bool) (i : Nat) (s : Server) (sl : Slot) (rq : Rq) :
    Tame w (writerSlot w si doResend i s sl rq) := by
  unfold writerSlot
  simp only
  repeat' first
    | exact Tame.refl _
    | refine Tame.trans ?_ (tame_freerqoutdata _ _ _)
    | refine Tame.trans ?_ (tame_event _ _)
    | refine Tame.trans ?_ (tame_updSrv _ _ _ (fun s => by simp) (fun _ h => h))
    | refine Tame.trans ?_ (tame_updSrv _ _ _ (fun s => by rw [lossOnAbandon_slots]) (fun s h => by rw [lossOnAbandon_nextid]; exact h))
    | refine Tame.trans ?_ (tame_updSrv _ _ _ (fun s => by rw [incLost_slots]) (fun s h => by rw [incLost_nextid]; exact h))
    | split

theorem tame_writerScan (fuel : Nat) (w : World) (si : Nat) (doResend : Bool) (i : Nat) : Tame w (writerScan w si doResend fuel i) := by
  induction fuel generalizing w i with
  | zero => exact Tame.refl w
  | succ n ih =>
    unfold writerScan
    cases getSrv w si with
    | none => exact Tame.refl w
    | some s =>
      simp only
      split
      · exact Tame.trans (tame_writerSlot w si doResend i s _ _) (ih _ _)
      · exact ih _ _

/-- the probe the writer makes for itself: allocated, queued through `sendrq` like any request -/
theorem createStatsrvRq_run (w : World) (si : Nat) (g : Good w) :
    Run (createStatsrvRq w si).1 (fun _ => 0) (createStatsrvRq w si).2 ∧ Tame w (createStatsrvRq w si).1 := by
  unfold createStatsrvRq
  simp only
  have h1 := newrequest_inv w (fun _ => 0) g.inv g.fresh
  have t1 := tame_newrequest w
  have r1 : Run (newrequest w).1 (fun _ => 0) w.nextOrd := ⟨h1, t1.wf g.wf⟩
  have r2 := run_takeRnd r1 16
  have t2 := Tame.trans t1 (tame_takeRnd (newrequest w).1 16)
  constructor
  · exact run_updRq r2 _ (fun _ => rfl) (fun _ => rfl)
  · exact Tame.trans t2 (tame_updRq _ _ _)

attribute [local irreducible] World.createStatsrvRq World.sendrq in
theorem probe_good (W : World) (si : Nat) (f g : Server → Server) (hf : ∀ s, (f s).slots = s.slots) (hg : ∀ s, (g s).slots = s.slots)
    (nf : ∀ s, s.nextid ≤ 256 → (f s).nextid ≤ 256) (ng : ∀ s, s.nextid ≤ 256 → (g s).nextid ≤ 256) (g1 : Good W) :
    Good (updSrv (sendrq (createStatsrvRq (updSrv W si f) si).1 (createStatsrvRq (updSrv W si f) si).2) si g) := by
  have g2 : Good (updSrv W si f) :=
    g1.of (updSrv_noslots_inv W _ si _ hf g1.inv) (tame_updSrv W si _ (fun s => by rw [hf]) nf)
  have cr := createStatsrvRq_run _ si g2
  have hsend := run_sendrq cr.1
  have tsend : Tame W (sendrq (createStatsrvRq (updSrv W si f) si).1 (createStatsrvRq (updSrv W si f) si).2) :=
    Tame.trans (Tame.trans (tame_updSrv W si f (fun s => by rw [hf]) nf) cr.2) (tame_sendrq _ _ cr.1.wf)
  exact g1.of (updSrv_noslots_inv _ _ si _ hg hsend) (Tame.trans tsend (tame_updSrv _ si _ (fun s => by rw [hg]) ng))

attribute [local irreducible] World.writerScan World.createStatsrvRq World.sendrq in
theorem writerPass_good (w : World) (si : Nat) (g : Good w) : Good (writerPass w si) := by
  unfold writerPass
  cases hs : getSrv w si with
  | none => exact g
  | some s =>
    simp only
    -- the pass up to the end of the scan
    have gscan : ∀ (f1 f2 : Server → Server), (∀ s, (f1 s).slots = s.slots) → (∀ s, (f2 s).slots = s.slots) →
        (∀ s, s.nextid ≤ 256 → (f1 s).nextid ≤ 256) → (∀ s, s.nextid ≤ 256 → (f2 s).nextid ≤ 256) → ∀ b,
        Good (writerScan (updSrv (updSrv w si f1) si f2) si b 256 0) := by
      intro f1 f2 h1 h2 n1 n2 b
      refine g.of (writerScan_inv 256 _ _ si b 0 (updSrv_noslots_inv _ _ si f2 h2 (updSrv_noslots_inv w _ si f1 h1 g.inv))) ?_
      exact Tame.trans (Tame.trans (tame_updSrv w si f1 (fun s => by rw [h1]) n1) (tame_updSrv _ si f2 (fun s => by rw [h2]) n2))
        (tame_writerScan 256 _ si b 0)
    have g1 := gscan (fun s => { s with newrq := false, conreset := false, lastrcv := if s.conreset then w.now else s.lastrcv })
      (fun s' => { s' with ssRequested := if s.conreset ∨ s'.lastrcv > s'.laststatsrv then false else s'.ssRequested })
      (fun _ => rfl) (fun _ => rfl) (fun _ h => h) (fun _ h => h) s.conreset
    generalize hW : writerScan _ si s.conreset 256 0 = W at g1
    cases hs2 : getSrv W si with
    | none => simp only [hW, hs2]; exact g1
    | some s2 =>
      simp only [hW, hs2]
      repeat' first
        | exact g1
        | exact probe_good W si _ _ (fun _ => rfl) (fun _ => rfl) (fun _ h => h) (fun _ h => h) g1
        | split

theorem writerWaitBound_good (w : World) (si : Nat) (g : Good w) : Good (writerWaitBound w si).1 := by
  unfold writerWaitBound
  cases getSrv w si with
  | none => exact g
  | some s =>
    simp only
    have r1 : Inv (takeRnd w 1).1 (fun _ => 0) := by
      unfold World.takeRnd
      cases w.rnds with
      | nil => exact g.inv
      | cons r rest => exact same_inv w _ _ rfl rfl rfl rfl g.inv
    exact g.of (updSrv_noslots_inv _ _ si _ (fun _ => rfl) r1)
      (Tame.trans (tame_takeRnd w 1) (tame_updSrv _ si _ (fun _ => rfl) (fun _ h => h)))

attribute [local irreducible] World.writerPass World.writerWaitBound in
theorem writerStep_good (fuel : Nat) (w : World) (si : Nat) (g : Good w) : Good (writerStep w si fuel).1 := by
  induction fuel generalizing w with
  | zero => exact g
  | succ n ih =>
    unfold writerStep
    simp only
    have g1 := writerPass_good w si g
    split
    · exact g1
    · split
      · exact ih _ g1
      · exact writerWaitBound_good _ si g1

/-- **C17 for one scheduling of the client writer** -/
theorem writerOp_good (w : World) (si : Nat) (g : Good w) : Good (writerOp w si).1 := by
  unfold writerOp
  exact writerStep_good 8 _ si (g.of (updSrv_noslots_inv w _ si _ (fun _ => rfl) g.inv) (tame_updSrv w si _ (fun _ => rfl) (fun _ h => h)))

/-! ### every history -/

theorem tame_foldFree (q : List Nat) (w : World) : Tame w (q.foldl freerq w) := by
  induction q generalizing w with
  | nil => exact Tame.refl w
  | cons x t ih => exact Tame.trans (tame_freerq w x) (ih _)

theorem tame_popReplies (w : World) (ci : Nat) : Tame w (popReplies w ci).1 := by
  unfold popReplies
  cases getCli w ci with
  | none => exact Tame.refl w
  | some c =>
    show Tame w (c.replyq.foldl freerq (updCli w ci fun c => { c with replyq := [] }))
    exact Tame.trans (tame_updCli w ci (fun c => { c with replyq := [] }) (fun _ => rfl)) (tame_foldFree _ _)

theorem tame_removeclient (w : World) (ci : Nat) : Tame w (removeclient w ci) := by
  unfold removeclient
  simp only
  have h1 : ∀ (l : List Nat) (w : World), Tame w (l.foldl (fun w i => removeclientrq w ci i) w) := by
    intro l
    induction l with
    | nil => intro w; exact Tame.refl w
    | cons x t ih => intro w; exact Tame.trans (stable_removeclientrq w ci x).tame (ih _)
  have t1 := h1 (List.range 256) w
  generalize (List.range 256).foldl (fun w i => removeclientrq w ci i) w = W at t1 ⊢
  cases getCli W ci with
  | none => exact t1
  | some c => exact Tame.trans t1 (Tame.trans (tame_foldFree _ _) (tame_updCli _ ci _ (fun _ => rfl)))

theorem filter_replicate_none (n o : Nat) : ((List.replicate n (none : Option Nat)).filter (· == some o)).length = 0 := by
  induction n with
  | zero => rfl
  | succ k ih => rw [List.replicate_succ, List.filter_cons]; simpa using ih

theorem client_good (w : World) (conf : Nat) (g : Good w) : Good { w with clients := w.clients ++ [{ conf := conf }] } := by
  have hget : ∀ ci c', getCli { w with clients := w.clients ++ [{ conf := conf }] } ci = some c' →
      getCli w ci = some c' ∨ c' = { conf := conf } := by
    intro ci c' h
    unfold getCli at h ⊢
    simp only at h
    by_cases hlt : ci < w.clients.length
    · rw [List.getElem?_append_left hlt] at h; exact Or.inl h
    · rw [List.getElem?_append_right (by omega)] at h
      right
      cases hk : ci - w.clients.length with
      | zero => rw [hk] at h; exact (Option.some.inj h).symm
      | succ n => rw [hk] at h; cases h
  have hhold : ∀ o, holders { w with clients := w.clients ++ [{ conf := conf }] } o = holders w o := by
    intro o
    unfold holders
    simp only [List.map_append, List.sum_append, List.map_cons, List.map_nil, List.sum_cons, List.sum_nil]
    have : (({ conf := conf } : Client).cache.filter (· == some o)).length = 0 := filter_replicate_none 256 o
    rw [this]
    simp
  refine ⟨?_, ?_, ?_⟩
  · exact inv_move w _ _ _ g.inv (fun o => rfl) (fun o => by rw [hhold])
  · refine ⟨fun si s h => g.wf.slots si s h, ?_, fun si s h => g.wf.nextid si s h⟩
    intro ci c' h
    rcases hget ci c' h with h1 | h1
    · exact g.wf.cache ci c' h1
    · subst h1; exact List.length_replicate
  · exact g.fresh

/-- a new association with empty tables (whatever its other fields) -/
theorem client_good' (w : World) (c0 : Client) (g : Good w) (hc0 : c0.cache = List.replicate 256 none ∧ c0.replyq = []) :
    Good { w with clients := w.clients ++ [c0] } := by
  have hget : ∀ ci c', getCli { w with clients := w.clients ++ [c0] } ci = some c' → getCli w ci = some c' ∨ c' = c0 := by
    intro ci c' h
    unfold getCli at h ⊢
    simp only at h
    by_cases hlt : ci < w.clients.length
    · rw [List.getElem?_append_left hlt] at h; exact Or.inl h
    · rw [List.getElem?_append_right (by omega)] at h
      right
      cases hk : ci - w.clients.length with
      | zero => rw [hk] at h; exact (Option.some.inj h).symm
      | succ n => rw [hk] at h; cases h
  have hhold : ∀ o, holders { w with clients := w.clients ++ [c0] } o = holders w o := by
    intro o
    unfold holders
    simp only [List.map_append, List.sum_append, List.map_cons, List.map_nil, List.sum_cons, List.sum_nil]
    rw [hc0.1, hc0.2, filter_replicate_none 256 o]
    simp
  refine ⟨?_, ?_, ?_⟩
  · exact inv_move w _ _ _ g.inv (fun o => rfl) (fun o => by rw [hhold])
  · refine ⟨fun si s h => g.wf.slots si s h, ?_, fun si s h => g.wf.nextid si s h⟩
    intro ci c' h
    rcases hget ci c' h with h1 | h1
    · exact g.wf.cache ci c' h1
    · subst h1; rw [hc0.1]; exact List.length_replicate
  · exact g.fresh

/-! ### the UDP listener: its pre-allocated request object and its associations -/

/-- the listener's pre-allocated object becomes the one being processed: the pointer becomes an in-flight reference -/
theorem pending_take (w : World) (fl : Nat → Nat) (o : Nat) (h : Inv w fl) (hp : w.udpPending = some o) :
    Inv { w with udpPending := none } (fun x => fl x + one o x) := by
  refine inv_move w { w with udpPending := none } fl _ h (fun _ => rfl) ?_
  intro x
  unfold holders
  simp only [hp, one]
  by_cases hx : x = o
  · subst hx; simp; omega
  · have : ¬ (some o = some x) := fun e => hx (Option.some.inj e).symm
    simp [hx, this]

/-- a freshly allocated object is parked as the listener's next one: the in-flight reference becomes the pointer -/
theorem pending_put (w : World) (fl : Nat → Nat) (o : Nat) (h : Inv w (fun x => fl x + one o x)) (hp : w.udpPending = none) :
    Inv { w with udpPending := some o } fl := by
  refine inv_move w { w with udpPending := some o } _ fl h (fun _ => rfl) ?_
  intro x
  unfold holders
  simp only [hp, one]
  by_cases hx : x = o
  · subst hx; simp; omega
  · have : ¬ (some o = some x) := fun e => hx (Option.some.inj e).symm
    simp [hx, this]

theorem udplisten_good (w : World) (g : Good w) (hp : w.udpPending = none) :
    Good { (newrequest w).1 with udpPending := some (newrequest w).2 } := by
  have h1 := newrequest_inv w (fun _ => 0) g.inv g.fresh
  have t1 := tame_newrequest w
  have t2 : Tame w { (newrequest w).1 with udpPending := some (newrequest w).2 } :=
    Tame.trans t1 (tame_same (newrequest w).1 { (newrequest w).1 with udpPending := some (newrequest w).2 } rfl rfl rfl)
  exact ⟨pending_put _ _ _ h1 hp, t2.wf g.wf, t2.fresh g.fresh⟩

theorem udpLoopTop_good (w : World) (g : Good w) : Good (udpLoopTop w) := by
  unfold udpLoopTop
  cases hp : w.udpPending with
  | some o => exact g
  | none => exact udplisten_good w g hp

theorem good_foldl_removeclient (l : List Nat) (w : World) (g : Good w) : Good (l.foldl removeclient w) := by
  induction l generalizing w with
  | nil => exact g
  | cons x t ih =>
    simp only [List.foldl_cons]
    exact ih (removeclient w x) (g.of (removeclient_inv w _ x g.inv) (tame_removeclient w x))

theorem udpAssoc_good (w : World) (conf nasIdx : Nat) (g : Good w) : Good (udpAssoc w conf nasIdx).1 := by
  unfold udpAssoc
  simp only
  -- the refresh of the matching association
  have g1 : ∀ i, Good (updCli w i fun c => { c with expiry := w.now + udpIdle w conf }) := by
    intro i
    refine g.of ?_ (tame_updCli w i _ (fun _ => rfl))
    exact inv_move w (updCli w i fun c => { c with expiry := w.now + udpIdle w conf }) _ _ g.inv (fun o => getRq_updCli _ _ _ _)
      (fun o => by rw [holders_updCli_norefs w i (fun c => { c with expiry := w.now + udpIdle w conf }) (fun _ => ⟨rfl, rfl⟩)])
  repeat' first
    | exact good_foldl_removeclient _ _ (g1 _)
    | exact good_foldl_removeclient _ _ g
    | exact client_good' _ _ (good_foldl_removeclient _ _ (g1 _)) ⟨rfl, rfl⟩
    | exact client_good' _ _ (good_foldl_removeclient _ _ g) ⟨rfl, rfl⟩
    | split

theorem udp_handle (A : World) (o : Nat) (f : Rq → Rq) (hf : ∀ r, (f r).refs = r.refs) (gA : Good A) (hp : A.udpPending = some o) :
    Good (radsrv (updRq { A with udpPending := none } o f) o).1 := by
  have h1 := pending_take A _ o gA.inv hp
  have t1 : Tame A { A with udpPending := none } := tame_same A { A with udpPending := none } rfl rfl rfl
  have r2 : Run (updRq { A with udpPending := none } o f) (fun _ => 0) o :=
    ⟨updRq_inv _ _ _ _ hf h1, (Tame.trans t1 (tame_updRq _ _ _)).wf gA.wf⟩
  exact gA.of (radsrv_inv _ _ _ r2) (Tame.trans (Tame.trans t1 (tame_updRq _ _ _)) (tame_radsrv _ _ r2.wf))

attribute [local irreducible] World.udpAssoc World.radsrv World.udpFindConf in
theorem udpRecv_good (w : World) (n : Nat) (pkt : Bytes) (g : Good w) : Good (udpRecv w n pkt).1 := by
  unfold udpRecv
  simp only
  have ga := fun conf => udpAssoc_good w conf n g
  repeat' first
    | exact g
    | exact ga _
    | (rename_i hp; exact udp_handle _ _ _ (fun _ => rfl) (ga _) hp)
    | split

/-- a packet from association `k`: a new request object, `radsrv` -/
theorem rq_good (w : World) (k : Nat) (pkt : Bytes) (g : Good w) :
    Good (radsrv (updRq (newrequest w).1 (newrequest w).2 fun r => { r with buf := some pkt, frm := some k }) (newrequest w).2).1 := by
  have h1 := newrequest_inv w (fun _ => 0) g.inv g.fresh
  have t1 := tame_newrequest w
  have r1 : Run (newrequest w).1 (fun _ => 0) (newrequest w).2 := ⟨h1, t1.wf g.wf⟩
  have r2 : Run (updRq (newrequest w).1 (newrequest w).2 fun r => { r with buf := some pkt, frm := some k }) (fun _ => 0) (newrequest w).2 :=
    ⟨updRq_inv _ _ _ _ (fun _ => rfl) r1.inv, (tame_updRq _ _ _).wf r1.wf⟩
  exact g.of (radsrv_inv _ _ _ r2) (Tame.trans (Tame.trans t1 (tame_updRq _ _ _)) (tame_radsrv _ _ r2.wf))

attribute [local irreducible] World.radsrv World.popReplies Stream.radGet in
theorem tcpServe_good (fuel : Nat) (w : World) (k : Nat) (s : Stream.Sock) (g : Good w) : Good (tcpServe w k fuel s) := by
  induction fuel generalizing w s with
  | zero => exact g
  | succ n ih =>
    unfold tcpServe
    split
    · rename_i b s' _
      simp only
      have g1 := rq_good w k b g
      have g2 : Good (popReplies (radsrv (updRq (newrequest w).1 (newrequest w).2 fun r => { r with buf := some b, frm := some k }) (newrequest w).2).1 k).1 :=
        g1.of (popReplies_inv _ _ k g1.inv) (tame_popReplies _ k)
      have g3 : ∀ (W : World), Good W → ∀ evs, Good { W with events := evs } := by
        intro W gW evs
        exact gW.of (same_inv W { W with events := evs } _ rfl rfl rfl rfl gW.inv) (tame_same W { W with events := evs } rfl rfl rfl)
      split
      · exact g3 _ g2 _
      · exact ih _ _ (g3 _ g2 _)
    · exact g

theorem tcpConn_good (w : World) (src : Bytes) (script : List Stream.Ev) (g : Good w) : Good (tcpConn w src script) := by
  unfold tcpConn
  cases tcpFindConf w src with
  | none => exact g
  | some conf =>
    simp only
    have g1 := client_good' w { conf := conf } g ⟨rfl, rfl⟩
    have g2 := tcpServe_good ((Stream.dataOf script).length + script.length + 4) _ w.clients.length { script := script } g1
    exact g2.of (removeclient_inv _ _ _ g2.inv) (tame_removeclient _ _)

/-! ### the proxy as stream client (`tcpconnect`, `tcpclientrd` with `closeh` / `timeouth`) -/

theorem good_same (W W' : World) (g : Good W) (hh : W'.heap = W.heap) (hs : W'.servers = W.servers) (hc : W'.clients = W.clients)
    (ho : W'.nextOrd = W.nextOrd) (hu : W'.udpPending = W.udpPending) : Good W' :=
  g.of (same_inv W W' _ hh hs hc hu g.inv) (tame_same W W' hh hs hc ho)

theorem event_good (W : World) (e : String) (g : Good W) : Good (event W e) := good_same W _ g rfl rfl rfl rfl rfl

theorem streamConnect_good (w : World) (si : Nat) (reconnect : Bool) (g : Good w) : Good (streamConnect w si reconnect) := by
  unfold streamConnect
  cases getSrv w si with
  | none => exact g
  | some s =>
    simp only
    have g1 : Good (event { w with now := w.now + connectWait w.now s.connecttime } ("slept:" ++ toString (connectWait w.now s.connecttime))) :=
      event_good _ _ (good_same w _ g rfl rfl rfl rfl rfl)
    have g2 : Good (if reconnect = true then event (event { w with now := w.now + connectWait w.now s.connecttime }
        ("slept:" ++ toString (connectWait w.now s.connecttime))) "reconnected"
        else event { w with now := w.now + connectWait w.now s.connecttime } ("slept:" ++ toString (connectWait w.now s.connecttime))) := by
      split
      · exact event_good _ _ g1
      · exact g1
    exact g2.of (updSrv_noslots_inv _ _ si _ (fun _ => rfl) g2.inv) (tame_updSrv _ si _ (fun _ => rfl) (fun _ h => h))

theorem clientRd_good (fuel : Nat) (w : World) (si : Nat) (s : Stream.Sock) (g : Good w) : Good (clientRd w si fuel s) := by
  induction fuel generalizing w s with
  | zero => exact g
  | succ n ih =>
    unfold clientRd
    split
    · exact g
    · split
      · rename_i b s' _
        simp only
        have g1 := event_good w ("got:" ++ toHex b) g
        have g2 : Good (replyh (event w ("got:" ++ toHex b)) si b).1 := g1.of (replyh_inv _ _ si b g1.inv) (tame_replyh _ si b)
        have g3 := event_good _ ("res:" ++ toString (replyh (event w ("got:" ++ toHex b)) si b).2 ++ "," ++
          toString (grownQueue ((event w ("got:" ++ toHex b)).clients.map (·.replyq.length)) (replyh (event w ("got:" ++ toHex b)) si b).1)) g2
        split
        · exact ih _ _ (streamConnect_good _ si true g3)
        · exact ih _ _ g3
      · split
        · split
          · exact ih _ _ (streamConnect_good _ si true g)
          · exact ih _ _ g
        · exact g
      · exact ih _ _ (streamConnect_good _ si true g)

theorem srvConn_good (w : World) (si : Nat) (script : List Stream.Ev) (g : Good w) : Good (srvConn w si script) := by
  have g1 := streamConnect_good w si false g
  have g2 : Good (updSrv (streamConnect w si false) si fun s => { s with rdUp := true }) :=
    g1.of (updSrv_noslots_inv _ _ si _ (fun _ => rfl) g1.inv) (tame_updSrv _ si _ (fun _ => rfl) (fun _ h => h))
  unfold srvConn
  simp only
  apply clientRd_good
  repeat' split
  all_goals first | exact g | exact g2

/-! ### server removal (`clientwr` errexit: `freeserver`) -/

theorem freeSlots_good (n : Nat) (w : World) (si : Nat) (g : Good w) : Good (freeSlots w si n) := by
  induction n with
  | zero => exact g
  | succ n ih => exact ih.of (freerqoutdata_inv _ _ si n ih.inv) (tame_freerqoutdata _ si n)

theorem rmserver_good (w : World) (si : Nat) (g : Good w) : Good (rmserver w si) :=
  (freeSlots_good 256 w si g).of
    (updSrv_noslots_inv _ _ si _ (fun _ => rfl) (freeSlots_good 256 w si g).inv)
    (tame_updSrv _ si _ (fun _ => rfl) (fun _ h => h))

theorem freerq_servers' (w : World) (o : Nat) : (freerq w o).servers = w.servers := by
  unfold freerq; cases getRq w o with
  | none => rfl
  | some r => simp only; split <;> rfl

theorem slotOf_set_same' (s : Server) (i : Nat) (x : Slot) (hi : i < s.slots.length) :
    slotOf { s with slots := s.slots.set i x } i = x := by
  unfold slotOf; simp [List.getD_eq_getElem?_getD, List.getElem?_set, hi]

theorem slotOf_set_other' (s : Server) (i j : Nat) (x : Slot) (hij : i ≠ j) :
    slotOf { s with slots := s.slots.set i x } j = slotOf s j := by
  unfold slotOf; simp [List.getD_eq_getElem?_getD, List.getElem?_set, hij]

/-- what `freerqoutdata` leaves of the server it works on: the same server with slot `i` blank -/
theorem getSrv_freerqoutdata_same (w : World) (si i : Nat) (s : Server) (hs : getSrv w si = some s) :
    getSrv (freerqoutdata w si i) si = some { s with slots := s.slots.set i {} } := by
  unfold freerqoutdata
  rw [hs]
  simp only
  split
  · rw [getSrv_updSrv_same _ si _ s (by unfold getSrv at hs ⊢; rw [freerq_servers']; exact hs)]
  · rw [getSrv_updSrv_same _ si _ s hs]

/-- after the first `n` slots have been released they are blank, and the table keeps its size -/
theorem freeSlots_blank (n : Nat) (w : World) (si : Nat) (s : Server) (hs : getSrv w si = some s) :
    ∃ s', getSrv (freeSlots w si n) si = some s' ∧ s'.slots.length = s.slots.length ∧ ∀ j, j < n → j < s.slots.length → slotOf s' j = {} := by
  induction n with
  | zero => exact ⟨s, hs, rfl, fun j hj => absurd hj (Nat.not_lt_zero j)⟩
  | succ n ih =>
    obtain ⟨s', h1, h2, h3⟩ := ih
    refine ⟨{ s' with slots := s'.slots.set n {} }, getSrv_freerqoutdata_same _ si n s' h1, by simp [h2], ?_⟩
    intro j hj hl
    by_cases hjn : j = n
    · subst hjn; exact slotOf_set_same' s' j {} (by rw [h2]; exact hl)
    · rw [slotOf_set_other' s' n j {} (fun e => hjn e.symm)]
      exact h3 j (by omega) hl

/-- **every operation keeps the counts right** -/
theorem step_good (w : World) (op : Op) (g : Good w) : Good (step w op) := by
  cases op with
  | client conf => exact client_good w conf g
  | rq ci pkt => exact rq_good w ci pkt g
  | reply si buf => exact g.of (replyh_inv w _ si buf g.inv) (tame_replyh w si buf)
  | writer si => exact writerOp_good w si g
  | tick n => exact g.of (same_inv w _ _ rfl rfl rfl rfl g.inv) (tame_same w _ rfl rfl rfl)
  | reset si => exact g.of (updSrv_noslots_inv w _ si _ (fun _ => rfl) g.inv) (tame_updSrv w si _ (fun _ => rfl) (fun _ h => h))
  | srvstate si st lost => exact g.of (updSrv_noslots_inv w _ si _ (fun _ => rfl) g.inv) (tame_updSrv w si _ (fun _ => rfl) (fun _ h => h))
  | pop ci => exact g.of (popReplies_inv w _ ci g.inv) (tame_popReplies w ci)
  | rmclient ci => exact g.of (removeclient_inv w _ ci g.inv) (tame_removeclient w ci)
  | radput ok => exact g.of (same_inv w _ _ rfl rfl rfl rfl g.inv) (tame_same w _ rfl rfl rfl)
  | oracle rx rnds => exact g.of (same_inv w _ _ rfl rfl rfl rfl g.inv) (tame_same w _ rfl rfl rfl)
  | waitbound si => exact writerWaitBound_good w si g
  | udplisten => exact udpLoopTop_good w g
  | udpnas ip => exact g.of (same_inv w _ _ rfl rfl rfl rfl g.inv) (tame_same w _ rfl rfl rfl)
  | udpsend n pkt => exact udpLoopTop_good _ (udpRecv_good w n pkt g)
  | tcpconn src script => exact tcpConn_good w src script g
  | rmserver si => exact rmserver_good w si g
  | srvconn si script => exact srvConn_good w si script g
  | srvnext si n => exact g.of (updSrv_noslots_inv w _ si _ (fun _ => rfl) g.inv) (tame_updSrv w si _ (fun _ => rfl) (fun _ _ => Nat.min_le_right n 256))

/-! ### every history -/

def runOps (w : World) (ops : List Op) : World := ops.foldl step w

/-- a freshly configured proxy: no request object, no association, every identifier table empty -/
structure Initial (w : World) : Prop where
  heap : w.heap = []
  clients : w.clients = []
  servers : ∀ s ∈ w.servers, s.slots = List.replicate 256 {} ∧ s.nextid = 0
  udp : w.udpPending = none

theorem filter_replicate_slot (n o : Nat) : ((List.replicate n ({} : Slot)).filter (·.rq == some o)).length = 0 := by
  induction n with
  | zero => rfl
  | succ k ih => rw [List.replicate_succ, List.filter_cons]; simpa using ih

theorem initial_good (w : World) (h : Initial w) : Good w := by
  have hget : ∀ o, getRq w o = none := by intro o; unfold getRq; rw [h.heap]; rfl
  have hsum : ∀ (l : List Server) (o : Nat), (∀ s ∈ l, s.slots = List.replicate 256 {}) →
      (l.map fun s => (s.slots.filter (·.rq == some o)).length).sum = 0 := by
    intro l o hl
    induction l with
    | nil => rfl
    | cons a t ih =>
      simp only [List.map_cons, List.sum_cons]
      rw [hl a (List.mem_cons_self), filter_replicate_slot, ih (fun s hs => hl s (List.mem_cons_of_mem _ hs))]
  refine ⟨⟨?_, ?_, ?_⟩, ⟨?_, ?_, ?_⟩, ?_⟩
  · intro o r hr; rw [hget] at hr; cases hr
  · intro o r hr; rw [hget] at hr; cases hr
  · intro o _
    refine ⟨?_, rfl⟩
    unfold holders
    rw [h.clients, h.udp, hsum w.servers o (fun s hs => (h.servers s hs).1)]
    simp
  · intro si s hs
    have : s ∈ w.servers := by unfold getSrv at hs; exact List.mem_of_getElem? hs
    rw [(h.servers s this).1]; exact List.length_replicate
  · intro ci c hc; unfold getCli at hc; rw [h.clients] at hc; simp at hc
  · intro si s hs
    have : s ∈ w.servers := by unfold getSrv at hs; exact List.mem_of_getElem? hs
    rw [(h.servers s this).2]; exact Nat.zero_le _
  · intro o hl; rw [hget] at hl; cases hl

/-- the decidable form of `Initial` the driver evaluates on every configured world -/
theorem initialOk_sound (w : World)
    (h : (w.heap.isEmpty && w.clients.isEmpty && w.udpPending.isNone &&
          w.servers.all fun s => s.slots == List.replicate 256 {} && s.nextid == 0) = true) : Initial w := by
  simp only [Bool.and_eq_true, List.isEmpty_iff, Option.isNone_iff_eq_none, List.all_eq_true, beq_iff_eq] at h
  obtain ⟨⟨⟨h1, h2⟩, h3⟩, h4⟩ := h
  exact ⟨h1, h2, fun s hs => h4 s hs, h3⟩

theorem good_runOps (w : World) (g : Good w) (ops : List Op) : Good (runOps w ops) := by
  unfold runOps
  induction ops generalizing w with
  | nil => exact g
  | cons op rest ih => exact ih _ (step_good w op g)

/-- **C17, every history.** From a freshly configured proxy, after ANY sequence of operations — requests with any bytes from
    any association, any bytes from any server, writer schedulings, clock steps, connection resets, state reports, deliveries,
    disconnections, in any order and number — every live request object's count equals the number of duplicate-cache entries,
    outstanding slots and reply-queue entries that point at it, is at least one, and nothing points at a released object. -/
theorem history_good (w : World) (h : Initial w) (ops : List Op) : Good (runOps w ops) :=
  good_runOps w (initial_good w h) ops

/-- … spelled out -/
theorem history_counts (w : World) (h : Initial w) (ops : List Op) (o : Nat) :
    (∀ r, getRq (runOps w ops) o = some r → r.refs = holders (runOps w ops) o ∧ 1 ≤ r.refs) ∧
    (getRq (runOps w ops) o = none → holders (runOps w ops) o = 0) := by
  have g := (history_good w h ops).inv
  refine ⟨fun r hr => ⟨by have := g.refs o r hr; simpa using this, g.pos o r hr⟩, fun hn => (g.dead o hn).1⟩

/-- nothing is kept for an association that is gone: once its client has been removed, no cache entry and no reply-queue entry
    of it points anywhere (with `history_counts`: whatever it held has been released or is held elsewhere) -/
theorem history_rmclient_clears (w : World) (h : Initial w) (ops : List Op) (ci : Nat) (c : Client)
    (hc : getCli (runOps w ops) ci = some c) :
    ∃ c', getCli (runOps w (ops ++ [.rmclient ci])) ci = some c' ∧ c'.replyq = [] ∧ ∀ j, c'.cache.getD j none = none := by
  have g := history_good w h ops
  unfold runOps
  rw [List.foldl_append]
  simp only [List.foldl_cons, List.foldl_nil, step]
  exact removeclient_clears _ ci c hc (by rw [g.wf.cache ci c hc]; exact Nat.le_refl _)

/-- **server removal**: whatever the history, once server `si` has been shut down it holds no request at all - every one of its
    256 slots is blank - and it is marked gone (so no request is routed to it any more); with `history_counts` the references
    its slots held have been given back exactly once each -/
theorem history_rmserver_clears (w : World) (h : Initial w) (ops : List Op) (si : Nat) (s : Server)
    (hs : getSrv (runOps w ops) si = some s) :
    ∃ s', getSrv (runOps w (ops ++ [.rmserver si])) si = some s' ∧ s'.gone = true ∧ ∀ j, (slotOf s' j).rq = none := by
  have g := history_good w h ops
  unfold runOps
  rw [List.foldl_append]
  simp only [List.foldl_cons, List.foldl_nil, step]
  obtain ⟨s', h1, h2, h3⟩ := freeSlots_blank 256 _ si s hs
  have hl := g.wf.slots si s hs
  refine ⟨_, getSrv_updSrv_same _ si _ s' h1, rfl, ?_⟩
  intro j
  by_cases hj : j < 256
  · have := h3 j hj (by rw [hl]; exact hj)
    show (slotOf s' j).rq = none
    rw [this]
  · show (slotOf s' j).rq = none
    unfold slotOf
    rw [List.getD_eq_getElem?_getD, List.getElem?_eq_none (by rw [h2, hl]; omega)]
    rfl

/-- a removed server is never chosen again: `choosesrvconf` sees a conf without server object -/
theorem gone_not_routed (w : World) (si : Nat) (s : Server) (hs : getSrv w si = some s) (hg : s.gone = true) :
    chooseEntry w si = none ∧ srvGone w si = true := by
  unfold chooseEntry srvGone
  rw [hs]
  simp [hg]

-- the hypotheses are met: a configured world with two servers is Initial
example : Initial { H := { md5 := fun _ => [], hmacMd5 := fun _ _ => [] }, rx := fun _ _ => none, opts := {}, cliConfs := [],
                    servers := [{ conf := { name := [], type := 0, secret := [], retryCount := 0, retryInterval := 0 }, ss := 0 },
                                { conf := { name := [1], type := 2, secret := [], retryCount := 0, retryInterval := 0 }, ss := 1 }],
                    realms := [] } :=
  ⟨rfl, rfl, by
    intro s hs
    rcases List.mem_cons.mp hs with rfl | hs
    · exact ⟨rfl, rfl⟩
    · rcases List.mem_cons.mp hs with rfl | hs
      · exact ⟨rfl, rfl⟩
      · exact absurd hs (List.not_mem_nil), rfl⟩


end Rsp.Props.C17
