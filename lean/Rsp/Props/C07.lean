/-
  Property C07 — no network input can corrupt memory.
  What a model can say about memory safety: every index the parsers use lies inside
  the object it indexes. Stated for the DNS record parsers here; for RADIUS packets by
  `Parse.parse_some_wellformed` (attributes tile the packet exactly) and
  `C06.serialize_length` (emitted length = octets written ≤ 4096).
-/
import Rsp.Model.Dns
import Rsp.Props.Parse
import Rsp.Props.C06
namespace Rsp.Props.C07
open Rsp Rsp.Dns

/-- a character string never exceeds the 256-octet destination (255 + terminator), whatever the record holds -/
theorem readCharString_fits (msg : Bytes) (rdoff offset rdlen : Nat) (s : Bytes)
    (h : readCharString msg rdoff offset rdlen = some s) : s.length + 1 ≤ 256 := by
  unfold readCharString at h
  simp only at h
  split at h
  · cases h
  · cases h
    simp only [List.length_map, List.length_range]
    have := (msg.getD (rdoff + offset) 0).toNat_lt
    omega

/-- … and, when accepted, was copied from inside the record's data -/
theorem readCharString_within (msg : Bytes) (rdoff offset rdlen : Nat) (s : Bytes)
    (h : readCharString msg rdoff offset rdlen = some s) : offset + 1 + s.length ≤ rdlen := by
  unfold readCharString at h
  simp only at h
  split at h
  · cases h
  · rename_i hle
    cases h
    simp only [List.length_map, List.length_range]
    omega

/-- **C07 (NAPTR).** A NAPTR record is accepted only if its three character strings and the
    replacement name tile the record data exactly: nothing outside the record was copied. -/
theorem parseNaptr_tiles (msg : Bytes) (names : NameOracle) (rdoff rdlen : Nat) (r : Naptr)
    (h : parseNaptr msg names rdoff rdlen = some r) :
    ∃ n, 4 + (r.flags.length + 1) + (r.services.length + 1) + (r.regexp.length + 1) + n = rdlen ∧
      r.flags.length ≤ 255 ∧ r.services.length ≤ 255 ∧ r.regexp.length ≤ 255 := by
  unfold parseNaptr at h
  cases h1 : readCharString msg rdoff 4 rdlen with
  | none => simp [h1] at h
  | some f =>
    simp only [h1] at h
    cases h2 : readCharString msg rdoff (4 + f.length + 1) rdlen with
    | none => simp [h2] at h
    | some sv =>
      simp only [h2] at h
      cases h3 : readCharString msg rdoff (4 + f.length + 1 + sv.length + 1) rdlen with
      | none => simp [h3] at h
      | some re =>
        simp only [h3] at h
        cases h4 : names (rdoff + (4 + f.length + 1 + sv.length + 1 + re.length + 1)) with
        | none => simp [h4] at h
        | some p =>
          obtain ⟨n, repl⟩ := p
          simp only [h4] at h
          split at h
          · cases h
          · rename_i heq
            cases h
            have b1 := readCharString_fits _ _ _ _ _ h1
            have b2 := readCharString_fits _ _ _ _ _ h2
            have b3 := readCharString_fits _ _ _ _ _ h3
            simp only [ne_eq, Decidable.not_not] at heq
            refine ⟨n, ?_, ?_, ?_, ?_⟩
            · show 4 + (f.length + 1) + (sv.length + 1) + (re.length + 1) + n = rdlen
              omega
            · show f.length ≤ 255
              omega
            · show sv.length ≤ 255
              omega
            · show re.length ≤ 255
              omega

/-- **C07 (answer size).** An answer the resolver reports as larger than the buffer is never parsed. -/
theorem query_rejects_oversize {α} (qtype : Nat) (parse : Bytes → Nat → Nat → Option α) (answer : Bytes) (retlen : Int)
    (h : retlen > 4096) : query qtype parse answer retlen = none := by
  unfold query packetSize
  have h1 : ¬ retlen < 0 := by omega
  have h2 : retlen.toNat > 4096 := by omega
  simp [h1, h2]

/-- every record the answer walk hands to a parser lies inside the answer -/
theorem answerRRs_go_within (msg : Bytes) (k pos : Nat) (acc res : List (Nat × Nat × Nat))
    (hacc : ∀ e ∈ acc, e.2.1 + e.2.2 ≤ msg.length)
    (h : answerRRs.go msg k pos acc = some res) : ∀ e ∈ res, e.2.1 + e.2.2 ≤ msg.length := by
  induction k generalizing pos acc with
  | zero =>
    unfold answerRRs.go at h
    split at h
    · cases h; intro e he; exact hacc e (by simpa using he)
    · cases h
  | succ k ih =>
    unfold answerRRs.go at h
    cases hs : skipName 128 msg pos with
    | none => simp [hs] at h
    | some p =>
      simp only [hs] at h
      split at h
      · cases h
      · split at h
        · cases h
        · rename_i h1 h2
          apply ih _ _ _ h
          intro e he
          simp only [List.mem_cons] at he
          cases he with
          | inl heq => subst heq; simp only; omega
          | inr hm => exact hacc e hm

theorem answerRRs_within (msg : Bytes) (res : List (Nat × Nat × Nat)) (h : answerRRs msg = some res) :
    ∀ e ∈ res, e.2.1 + e.2.2 ≤ msg.length := by
  unfold answerRRs at h
  split at h
  · cases h
  · split at h
    · cases h
    · cases hq : skipName 128 msg 12 with
      | none => simp [hq] at h
      | some q =>
        simp only [hq] at h
        split at h
        · cases h
        · exact answerRRs_go_within msg _ _ [] res (by simp) h

end Rsp.Props.C07
