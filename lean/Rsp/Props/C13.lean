/-
  Property C13 — TTL hop limit (decrement part).
  Theorems here are the proof obligations; helper lemmas live in Rsp/Lemmas.
-/
import Rsp.Lemmas.Ttl
import Rsp.Spec.Ttl
import Rsp.Model.World
namespace Rsp.Props.C13
open Rsp Rsp.Ttl

/-- The value after `decttl` has the same length. -/
theorem decttl_length (v : Bytes) : (decttl v).2.length = v.length := by
  unfold decttl
  split
  · rfl
  · next x rest hrev =>
    have hl : v.length = rest.length + 1 := by
      have := congrArg List.length hrev; simpa using this
    split
    · dsimp only; split <;> (try split) <;> simp [hl]
    · split
      · rfl
      · next rest' hb =>
        have := (borrow_some rest rest' hb).2
        simp [hl, this]

/-- `decttl` on a zero value (of any length, including the empty value) leaves it
    untouched and reports "exceeded". -/
theorem decttl_zero (v : Bytes) (h : beVal v = 0) : decttl v = (0, v) := by
  unfold decttl
  unfold beVal at h
  split
  · rfl
  · next x rest hrev =>
    rw [hrev] at h
    simp only [leVal] at h
    have hx : x = 0 := by
      apply Decidable.byContradiction; intro hx
      have := u8_ne_zero_toNat hx; omega
    subst hx
    have hr : leVal rest = 0 := by simp at h; omega
    simp [(borrow_none_iff rest).mpr hr]

/-- `decttl` on a positive value n stores n-1 (big-endian, same length) and
    returns 1 exactly when n-1 is still positive. Unbounded in the length. -/
theorem decttl_pos (v : Bytes) (h : 0 < beVal v) :
    beVal (decttl v).2 = beVal v - 1 ∧
    (decttl v).1 = (if beVal v - 1 = 0 then 0 else 1) := by
  unfold decttl
  unfold beVal at h ⊢
  split
  · next hrev => rw [hrev] at h; simp [leVal] at h
  · next x rest hrev =>
    rw [hrev] at h ⊢
    simp only [leVal] at h ⊢
    split
    · next hx =>
      have hx' : x ≠ 0 := by simpa using hx
      have h1 := u8_sub_one_toNat hx'
      have h2 := u8_ne_zero_toNat hx'
      split
      · next hx1 =>
        have hx1' : x - 1 ≠ 0 := by simpa using hx1
        have := u8_ne_zero_toNat hx1'
        have hne : ¬ (x.toNat + 256 * leVal rest - 1 = 0) := by omega
        simp [leVal, h1, hne]; omega
      · next hx1 =>
        have hx1' : x - 1 = 0 := by simpa using hx1
        have h3 : (x - 1).toNat = 0 := by rw [hx1']; rfl
        by_cases hr : leVal rest = 0
        · have : anyNonZero rest = false := by
            cases ha : anyNonZero rest with
            | false => rfl
            | true => exact absurd hr ((anyNonZero_iff rest).mp ha)
          have he : x.toNat + 256 * leVal rest - 1 = 0 := by omega
          simp [leVal, this, h3, hr]; omega
        · have : anyNonZero rest = true := (anyNonZero_iff rest).mpr hr
          have hne : ¬ (x.toNat + 256 * leVal rest - 1 = 0) := by omega
          simp [leVal, this, h3, hne]; omega
    · next hx =>
      have hx' : x = 0 := by simpa using hx
      subst hx'
      have hr : leVal rest ≠ 0 := by simp at h; omega
      cases hb : borrow rest with
      | none => exact absurd ((borrow_none_iff rest).mp hb) hr
      | some rest' =>
        have := (borrow_some rest rest' hb).1
        have hne : ¬ (256 * leVal rest - 1 = 0) := by omega
        simp [leVal, hne]; omega

/-- The executable spec verdict holds for the model on every input: the property
    statement "decremented by exactly one as an unsigned big-endian integer,
    discarded when zero before or after" for values of every length. -/
theorem decttl_meets_spec (v : Bytes) :
    Spec.decttlOk v (decttl v).1 (decttl v).2 = true := by
  unfold Spec.decttlOk Spec.ttlStep
  by_cases h0 : beVal v = 0
  · simp [h0, decttl_zero v h0]
  · have hp : 0 < beVal v := Nat.pos_of_ne_zero h0
    obtain ⟨hv, hr⟩ := decttl_pos v hp
    have hlen := decttl_length v
    -- the output equals the canonical big-endian encoding of n-1
    have henc : (decttl v).2 = beEnc v.length (beVal v - 1) := by
      apply beVal_inj_of_length
      · simp [hlen]
      · rw [hv, beVal_beEnc]
        have := beVal_lt v
        exact (Nat.mod_eq_of_lt (by omega)).symm
    simp only [h0, if_false]
    rw [henc, hr]
    by_cases h1 : beVal v - 1 = 0 <;> simp [h1]

/-- Non-vacuity: a concrete multi-byte borrow chain. -/
example : decttl [1, 0, 0] = (1, [0, 255, 255]) := by decide
example : decttl [0, 0, 1] = (0, [0, 0, 0]) := by decide
example : decttl [0, 0] = (0, [0, 0]) := by decide
example : decttl [] = (0, []) := by decide

/-! ### a chain of proxies: the hop limit is a bound on every forwarding path -/

/-- `k` successive proxies each apply `decttl` to the value the previous one forwarded;
    the chain goes on only while `decttl` returns 1 (a 0 makes `checkttl` discard the message). -/
def passes : Nat → Bytes → Bool
  | 0, _ => true
  | k + 1, v => (decttl v).1 == 1 && passes k (decttl v).2

/-- A message whose TTL value is n (any length of value) is passed on by exactly the first
    n-1 proxies of ANY forwarding path, loops included: the k-th proxy in a row forwards it
    iff k < n. No bound on n, on the value's length or on the path. -/
theorem hop_chain_exact (k : Nat) (v : Bytes) :
    passes (k + 1) v = true ↔ k + 1 < beVal v := by
  induction k generalizing v with
  | zero =>
    by_cases h0 : beVal v = 0
    · simp [passes, decttl_zero v h0, h0]
    · obtain ⟨_, hr⟩ := decttl_pos v (Nat.pos_of_ne_zero h0)
      simp only [passes, hr, Bool.and_true, beq_iff_eq]
      by_cases h1 : beVal v - 1 = 0 <;> simp [h1] <;> omega
  | succ k ih =>
    by_cases h0 : beVal v = 0
    · have : passes (k + 1 + 1) v = false := by
        simp [passes, decttl_zero v h0]
      simp [this, h0]
    · obtain ⟨hv, hr⟩ := decttl_pos v (Nat.pos_of_ne_zero h0)
      have ih' := ih (decttl v).2
      rw [hv] at ih'
      have hstep : passes (k + 1 + 1) v = ((decttl v).1 == 1 && passes (k + 1) (decttl v).2) := rfl
      rw [hstep, Bool.and_eq_true, ih', hr, beq_iff_eq]
      by_cases h1 : beVal v - 1 = 0 <;> simp [h1] <;> omega

/-- Every forwarding path is finite: no value survives `beVal v` proxies, so a routing loop
    (which `LoopPrevention` cannot see across several proxies) ends after fewer than n hops. -/
theorem hop_chain_bounded (k : Nat) (v : Bytes) (h : passes k v = true) : k = 0 ∨ k < beVal v := by
  cases k with
  | zero => exact Or.inl rfl
  | succ k => exact Or.inr ((hop_chain_exact k v).mp h)

/-- Non-vacuity: the value 5 in two octets passes 4 proxies and not the 5th; a borrow chain
    (256 in two octets) is crossed on the way down. -/
example : passes 4 [0, 5] = true ∧ passes 5 [0, 5] = false := by decide
example : passes 2 [1, 0] = true ∧ (decttl (decttl [1, 0]).2).2 = [0, 254] := by decide

/-! ### the TTL attribute inside a message, AddTTL, loop prevention -/
open Rsp.World Rsp.Radmsg in
/-- plain TTL attribute type: `checkttl` decrements the FIRST attribute of that type (per
    `decttl`) and leaves every other attribute, and the order, unchanged; without such an
    attribute it reports -1 and changes nothing. -/
theorem checkttl_plain (ty : Nat) (as : List Tlv) :
    (∀ a ∈ as, a.t.toNat ≠ ty) → checkttl (ty, 256) as = (-1, as) := by
  intro h
  unfold checkttl
  simp only [if_true]
  have : ∀ (pre rest : List Tlv), (∀ a ∈ rest, a.t.toNat ≠ ty) → checkttl.go (ty, 256) pre rest = (-1, pre.reverse ++ rest) := by
    intro pre rest
    induction rest generalizing pre with
    | nil => intro _; simp [checkttl.go]
    | cons a t ih =>
      intro hh
      have ha : ¬ a.t.toNat = ty := hh a (by simp)
      simp only [checkttl.go, ha, if_false]
      rw [ih (a :: pre) (fun x hx => hh x (by simp [hx]))]
      simp
  simpa using this [] as h

open Rsp.World Rsp.Radmsg in
theorem checkttl_plain_first (ty : Nat) (pre : List Tlv) (a : Tlv) (rest : List Tlv)
    (hpre : ∀ x ∈ pre, x.t.toNat ≠ ty) (ha : a.t.toNat = ty) :
    checkttl (ty, 256) (pre ++ a :: rest) = (((decttl a.v).1 : Int), pre ++ { a with v := (decttl a.v).2 } :: rest) := by
  unfold checkttl
  simp only [if_true]
  have : ∀ (acc : List Tlv), checkttl.go (ty, 256) acc (pre ++ a :: rest) =
      (((decttl a.v).1 : Int), acc.reverse ++ pre ++ { a with v := (decttl a.v).2 } :: rest) := by
    induction pre with
    | nil => intro acc; simp [checkttl.go, ha]
    | cons p t ih =>
      intro acc
      have hp : ¬ p.t.toNat = ty := hpre p (by simp)
      simp only [List.cons_append, checkttl.go, hp, if_false]
      rw [ih (fun x hx => hpre x (by simp [hx])) (p :: acc)]
      simp
  simpa using this []

open Rsp.World Rsp.Radmsg in
/-- AddTTL appends one attribute holding the configured value as a 4-octet integer
    (plain type) -/
theorem addttl_plain (ty n : Nat) (as : List Tlv) :
    addttlattr (ty, 256) n as = as ++ [{ t := UInt8.ofNat ty, v := [0, 0, 0, UInt8.ofNat n] }] := by
  unfold addttlattr; simp

open Rsp.World in
/-- the per-peer AddTTL value overrides the global one; 0 = unset -/
theorem effAddTtl_table (opts : Options) (peer : Nat) :
    (peer ≠ 0 → effAddTtl opts peer = peer) ∧ (peer = 0 → effAddTtl opts peer = opts.addttl) := by
  unfold effAddTtl; constructor <;> intro h <;> simp [h]

open Rsp.World in
/-- **Loop prevention decision.** A request is held back exactly when loop prevention is
    in effect for the server (on there, or unset there and on globally) and the block
    names are equal octet for octet. -/
theorem loopPrevents_iff (opts : Options) (cc : CliConf) (sc : SrvConf) :
    loopPrevents opts cc sc = true ↔ (sc.loopPrev = 1 ∨ (sc.loopPrev = 255 ∧ opts.loopPrev = true)) ∧ cc.name = sc.name := by
  unfold loopPrevents; simp

/-! ### the two decisions where `radsrv` takes them -/

open Rsp.World in
theorem freerq_sc (w : World) (o : Nat) : (freerq w o).servers = w.servers ∧ (freerq w o).clients = w.clients := by
  unfold freerq
  split
  · exact ⟨rfl, rfl⟩
  · split
    · exact ⟨rfl, rfl⟩
    · unfold setRq; exact ⟨rfl, rfl⟩

open Rsp.World in
theorem updRq_sc (w : World) (o : Nat) (f : Rq → Rq) : (updRq w o f).servers = w.servers ∧ (updRq w o f).clients = w.clients := by
  unfold updRq; exact ⟨rfl, rfl⟩

open Rsp.World in
/-- **C13 (loop prevention, at the request).** when loop prevention applies to the chosen server the request is released and nothing
    else happens: no slot of any server taken, nothing queued for any client -/
theorem forward_loop_prevented (w : World) (o : Nat) (cc : CliConf) (m0 : Radmsg.Msg) (as3 : List Radmsg.Tlv) (ttlres : Int) (si : Nat) (s : Server)
    (hs : getSrv w si = some s) (hl : loopPrevents w.opts cc s.conf = true) :
    radsrvForward w o cc m0 as3 ttlres si = freerq w o ∧
    (radsrvForward w o cc m0 as3 ttlres si).servers = w.servers ∧ (radsrvForward w o cc m0 as3 ttlres si).clients = w.clients := by
  have h : radsrvForward w o cc m0 as3 ttlres si = freerq w o := by
    unfold radsrvForward; simp only [hs, Option.getD, hl, if_true]
  rw [h]
  exact ⟨rfl, freerq_sc w o⟩

attribute [local irreducible] World.radsrvRoute Rewrite.dorewrite World.respond in
open Rsp.World in
/-- **C13 (TTL used up, at the request).** a request whose TTL attribute - as the client block's rewriteIn leaves it - is 0 or would
    become 0 (`checkttl` says 0) is not routed at all: it is released, no server and no reply queue touched -/
theorem rewrite_ttl_exceeded (w : World) (o : Nat) (cc : CliConf) (m0 : Radmsg.Msg)
    (hok : cc.rwIn.isSome = true → (Rewrite.dorewrite w.rx cc.rwIn m0.attrs).ok = true)
    (ht : (checkttl w.opts.ttlType (if cc.rwIn.isSome then (Rewrite.dorewrite w.rx cc.rwIn m0.attrs).attrs else m0.attrs)).1 = 0) :
    (radsrvRewrite w o cc m0).servers = w.servers ∧ (radsrvRewrite w o cc m0).clients = w.clients := by
  unfold radsrvRewrite
  have h1 : ¬ (cc.rwIn.isSome = true ∧ (!(Rewrite.dorewrite w.rx cc.rwIn m0.attrs).ok) = true) := by
    intro ⟨a, b⟩; rw [hok a] at b; exact Bool.noConfusion b
  simp only [h1, if_false, ht, if_true]
  exact ⟨(freerq_sc _ o).1.trans (updRq_sc w o _).1, (freerq_sc _ o).2.trans (updRq_sc w o _).2⟩

end Rsp.Props.C13
