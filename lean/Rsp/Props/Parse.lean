/-
  Parser soundness, shared by C04 / C05 / C07: for EVERY byte string and every
  combination of secret / request authenticator, what `buf2radmsg` returns is
  justified by the packet-level spec.
-/
import Rsp.Lemmas.Radmsg
namespace Rsp.Props.Parse
open Rsp Rsp.Radmsg Rsp.Spec

theorem anyInvalid_eq_expect (H : Hashes) (b : Bytes) (secret rqauth : Option Bytes) :
    anyInvalid H b (b.getD 0 0) secret rqauth (msgAuthPositions (b.length + 1) (b.drop 20) 20) =
      expectMacInvalid H b secret rqauth := by
  unfold anyInvalid expectMacInvalid allMsgAuthValid
  cases secret with
  | none => rfl
  | some sec =>
    simp only
    have hfun : (fun (x : Nat × Nat) => msgAuthInvalid H b (b.getD 0 0) sec rqauth x.1 x.2) =
        (fun x => (isAccessResp (b.getD 0 0) && rqauth.isNone) || !(fun (y : Nat × Nat) => y.2 == 16 && macOk H (macBuf b rqauth) y.1 sec) x) := by
      funext x; exact msgAuthInvalid_eq H b sec rqauth x.1 x.2
    have := any_or_not (msgAuthPositions (b.length + 1) (b.drop 20) 20) (isAccessResp (b.getD 0 0) && rqauth.isNone)
      (fun y => y.2 == 16 && macOk H (macBuf b rqauth) y.1 sec)
    rw [← hfun] at this
    rw [Bool.and_assoc]
    exact this

/-- **Parser theorem.** Accepted ⇒ the packet is well-formed (length field =
    octets received, attributes tile it exactly), passes every authenticator
    check that can be made, the message is its faithful image and
    `macInvalid` is exactly "some Message-Authenticator does not verify".
    Rejected ⇒ malformed or a checkable authenticator fails. -/
theorem parse_meets_spec (H : Hashes) (b : Bytes) (secret rqauth : Option Bytes) :
    match parse H b secret rqauth with
    | some m => parseAcceptOk H b secret rqauth m = true
    | none => parseRejectOk H b secret rqauth = true := by
  unfold parse
  by_cases hlen : b.length ≠ beVal ((b.drop 2).take 2)
  · rw [if_pos hlen]
    have : (beVal ((b.drop 2).take 2) == b.length) = false := by
      rw [beq_eq_false_iff_ne]; exact fun h => hlen h.symm
    simp [parseRejectOk, wellFormedLoose, this]
  · have hlen' : beVal ((b.drop 2).take 2) = b.length := by
      apply Decidable.byContradiction; intro h; exact hlen (fun h' => h h'.symm)
    rw [if_neg hlen]
    cases hacct : acctAuthBad H b secret with
    | true =>
      simp only [if_true]
      unfold acctAuthBad at hacct
      cases secret with
      | none => simp at hacct
      | some sec =>
        simp only [Bool.and_eq_true, decide_eq_true_eq, Bool.not_eq_true'] at hacct
        have hv : respAuthValid H b (zeros 16) sec = false := hacct.2
        have h4 : b[0]?.getD 0 = 4 := by simpa [List.getD_eq_getElem?_getD] using hacct.1
        simp [parseRejectOk, authChecksPass, hv]
        right; left; exact h4
    | false =>
      simp only [Bool.false_eq_true, if_false]
      cases hresp : respAuthBad H b secret rqauth with
      | true =>
        simp only [if_true]
        unfold respAuthBad at hresp
        cases secret with
        | none => simp at hresp
        | some sec =>
          cases rqauth with
          | none => simp at hresp
          | some ra =>
            simp only [Bool.not_eq_true'] at hresp
            have hv : respAuthValid H b ra sec = false := hresp
            simp [parseRejectOk, authChecksPass, hv]
      | false =>
        simp only [Bool.false_eq_true, if_false]
        have hauth : authChecksPass H b secret rqauth = true := by
          unfold authChecksPass
          unfold acctAuthBad at hacct
          unfold respAuthBad at hresp
          cases secret with
          | none => rfl
          | some sec =>
            simp only [Bool.and_eq_false_iff, decide_eq_false_iff_not, Bool.not_eq_false'] at hacct
            simp only [Bool.and_eq_true, Bool.or_eq_true, bne_iff_ne, ne_eq]
            constructor
            · rcases hacct with h | h
              · left; exact h
              · right; exact h
            · cases rqauth with
              | none => rfl
              | some ra =>
                simp only [Bool.not_eq_false'] at hresp
                exact hresp
        have hs := parseAttrs_spec H b (b.getD 0 0) secret rqauth (b.length + 1) 20 (b.drop 20) {}
        cases hp : parseAttrs H b (b.getD 0 0) secret rqauth (b.length + 1) 20 (b.drop 20) {} with
        | none =>
          rw [hp] at hs
          simp only [parseRejectOk, wellFormedLoose, hs, Bool.and_false, Bool.not_false, Bool.true_or]
        | some st =>
          rw [hp] at hs
          obtain ⟨ht, ha, hm⟩ := hs
          simp only [parseAcceptOk, wellFormedLoose, hlen', beq_self_eq_true, ht, hauth, Bool.and_self, Bool.true_and]
          simp only [List.reverse_nil, List.map_nil, List.nil_append, Bool.false_or] at ha hm
          rw [hm, anyInvalid_eq_expect]
          have : (List.map (fun a => (a.t, a.v)) st.attrs.reverse) = splitAttrs (b.length + 1) (b.drop 20) := by
            rw [← ha]; rfl
          simp [this]

/-- Corollary used by the request/reply handlers: nothing is accepted unless the
    length field equals the octets received and the attributes tile the packet. -/
theorem parse_some_wellformed (H : Hashes) (b : Bytes) (secret rqauth : Option Bytes) (m : Msg)
    (h : parse H b secret rqauth = some m) : wellFormedLoose b = true := by
  have := parse_meets_spec H b secret rqauth
  rw [h] at this
  simp only [parseAcceptOk, Bool.and_eq_true] at this
  exact this.1.1.1.1.1.1

/-- Corollary: an accepted packet with `macInvalid = false` carries only valid Message-Authenticators. -/
theorem parse_macs_valid (H : Hashes) (b sec : Bytes) (rqauth : Option Bytes) (m : Msg)
    (h : parse H b (some sec) rqauth = some m) (hm : m.macInvalid = false) :
    allMsgAuthValid H b rqauth sec = true := by
  have := parse_meets_spec H b (some sec) rqauth
  rw [h] at this
  simp only [parseAcceptOk, Bool.and_eq_true, beq_iff_eq] at this
  have he := this.2
  rw [hm] at he
  unfold expectMacInvalid at he
  simp only at he
  have := he.symm
  simp only [Bool.or_eq_false_iff, Bool.not_eq_false'] at this
  exact this.2

end Rsp.Props.Parse
