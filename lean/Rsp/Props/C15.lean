/-
  Property C15 — a TLS/DTLS peer is authorised only by a certificate matching its block.
-/
import Rsp.Spec.Cert
namespace Rsp.Props.C15
open Rsp Rsp.Cert Rsp.Spec.Cert

theorem contains_false_iff (v : Bytes) (c : UInt8) : v.contains c = false → ¬ c ∈ v := by
  intro h hm
  have : v.contains c = true := List.contains_iff_mem.mpr hm
  rw [h] at this; cases this

/-- the loop reports 1 only if some entry of the wanted kind matched -/
theorem sanLoop_one (f : SanVal → Option Bool) (l : List SanVal) (r : Int) (hr : r ≠ 1)
    (h : sanLoop f l r = 1) : ∃ e ∈ l, f e = some true := by
  induction l generalizing r with
  | nil => unfold sanLoop at h; exact absurd h hr
  | cons e rest ih =>
    unfold sanLoop at h
    cases hf : f e with
    | none =>
      simp only [hf] at h
      obtain ⟨e', he', hfe'⟩ := ih r hr h
      exact ⟨e', by simp [he'], hfe'⟩
    | some b =>
      cases b with
      | true => exact ⟨e, by simp, hf⟩
      | false =>
        simp only [hf] at h
        obtain ⟨e', he', hfe'⟩ := ih (-1) (by decide) h
        exact ⟨e', by simp [he'], hfe'⟩

theorem matchSan_pos (c : Cert) (f : SanVal → Option Bool) (h : 1 ≤ matchSan c f) :
    ∃ l e, c.sans = some l ∧ e ∈ l ∧ f e = some true := by
  unfold matchSan at h
  cases hs : c.sans with
  | none => simp [hs] at h
  | some l =>
    simp only [hs] at h
    -- the loop only ever yields -1, 0 or 1
    have range : ∀ (l : List SanVal) (r : Int), (r = 0 ∨ r = -1 ∨ r = 1) → (sanLoop f l r = 0 ∨ sanLoop f l r = -1 ∨ sanLoop f l r = 1) := by
      intro l
      induction l with
      | nil => intro r hr; unfold sanLoop; exact hr
      | cons e rest ih =>
        intro r hr
        unfold sanLoop
        cases f e with
        | none => exact ih r hr
        | some b => cases b with
          | true => exact Or.inr (Or.inr rfl)
          | false => exact ih (-1) (Or.inr (Or.inl rfl))
    have h1 : sanLoop f l 0 = 1 := by
      rcases range l 0 (Or.inl rfl) with h0 | hm | h1
      · omega
      · omega
      · exact h1
    obtain ⟨e, he, hfe⟩ := sanLoop_one f l 0 (by decide) h1
    exact ⟨l, e, rfl, he, hfe⟩

theorem regexMatch_spec (lib : Lib) (pat v : Bytes) (h : regexMatch lib pat v = true) :
    v ≠ [] ∧ ¬ (0 : UInt8) ∈ v ∧ lib.rx pat v = true := by
  unfold regexMatch at h
  simp only [Bool.and_eq_true, decide_eq_true_eq, Bool.not_eq_true'] at h
  obtain ⟨⟨hl, hz⟩, hr⟩ := h
  refine ⟨?_, contains_false_iff v 0 hz, hr⟩
  intro he; subst he; simp at hl

/-- **C15 (NAIRealm).** The coded test accepts a value only if it equals the realm or is a wildcard for
    exactly one leading label of it. -/
theorem naiWild_spec (realm v : Bytes) (htake : v.take 2 = [42, 46]) (h : naiWild realm v = true) : OneLabelWildcard v realm := by
  unfold naiWild at h
  simp only [Bool.and_eq_true, decide_eq_true_eq, beq_iff_eq, Bool.not_eq_true'] at h
  obtain ⟨⟨⟨hstar, hrl⟩, hsuf⟩, hdot⟩ := h
  have hv : v = 42 :: 46 :: v.drop 2 := by
    have := List.take_append_drop 2 v
    rw [htake] at this
    simpa using this.symm
  refine ⟨realm.take (realm.length - (v.length - 1)), v.drop 2, hv, ?_, ?_, contains_false_iff _ 46 hdot, contains_false_iff _ 42 hstar⟩
  · have h1 : v.drop 1 = 46 :: v.drop 2 := by
      conv => lhs; rw [hv]
      simp
    rw [← h1, ← hsuf]
    exact (List.take_append_drop _ realm).symm
  · intro he
    have := congrArg List.length he
    simp at this
    omega

theorem naiMatch_spec (realm v : Bytes) (h : naiMatch realm v = true) :
    ¬ (0 : UInt8) ∈ v ∧ (v = realm ∨ OneLabelWildcard v realm) := by
  unfold naiMatch at h
  simp only [Bool.and_eq_true, Bool.not_eq_true'] at h
  obtain ⟨hz, h⟩ := h
  refine ⟨contains_false_iff v 0 hz, ?_⟩
  split at h
  · rename_i hw
    simp only [Bool.and_eq_true, decide_eq_true_eq, beq_iff_eq] at hw
    exact Or.inr (naiWild_spec realm v hw.2 h)
  · exact Or.inl (beq_iff_eq.mp h)

theorem naiRealmCheck_spec (c : Cert) (realm : Bytes) (h : naiRealmCheck c realm = true) : NaiSpec c realm := by
  unfold naiRealmCheck at h
  have h1 : (1 : Int) ≤ matchSan c (naiEntry realm) := by
    have := beq_iff_eq.mp h
    omega
  obtain ⟨l, e, hs, he, hf⟩ := matchSan_pos c _ h1
  cases e with
  | other o s =>
    simp only [naiEntry, Option.some.injEq, Bool.and_eq_true, beq_iff_eq] at hf
    obtain ⟨ho, hm⟩ := hf
    cases s with
    | none => simp [naiStr] at hm
    | some v =>
      simp only [naiStr] at hm
      obtain ⟨hz, hv⟩ := naiMatch_spec realm v hm
      exact ⟨l, v, hs, by rw [← ho]; exact he, hz, hv⟩
  | dns v => simp [naiEntry] at hf
  | uri v => simp [naiEntry] at hf
  | ip v => simp [naiEntry] at hf
  | rid o => simp [naiEntry] at hf

theorem certNameCheck_spec (lib : Lib) (cn : Bool) (hp : Bytes × Nat) (h : certNameCheck lib cn hp = true) :
    hp.2 ≠ 255 ∨ LibName lib cn hp.1 := by
  unfold certNameCheck at h
  by_cases hp255 : hp.2 ≠ 255
  · exact Or.inl hp255
  · right
    simp only [hp255, if_false] at h
    unfold LibName
    by_cases hip : (lib.isIp hp.1 && lib.ipCheck hp.1 == 1) = true
    · left
      simp only [Bool.and_eq_true, beq_iff_eq] at hip
      exact hip
    · right
      simp only [hip, if_false] at h
      exact beq_iff_eq.mp h

theorem termMatch_spec (lib : Lib) (c : Cert) (t : Term) (h : 1 ≤ termMatch lib c t) : TermSpec lib c t := by
  cases t with
  | cn rx =>
    simp only [termMatch] at h
    split at h
    · rename_i hany
      obtain ⟨v, hv, hm⟩ := List.any_eq_true.mp hany
      obtain ⟨h1, h2, h3⟩ := regexMatch_spec lib rx v hm
      exact ⟨v, hv, h1, h2, h3⟩
    · omega
  | dns rx =>
    simp only [termMatch] at h
    obtain ⟨l, e, hs, he, hf⟩ := matchSan_pos c _ h
    cases e with
    | dns v =>
      simp only [dnsEntry, Option.some.injEq] at hf
      obtain ⟨h1, h2, h3⟩ := regexMatch_spec lib rx v hf
      exact ⟨l, v, hs, he, h1, h2, h3⟩
    | uri v => simp [dnsEntry] at hf
    | ip v => simp [dnsEntry] at hf
    | rid o => simp [dnsEntry] at hf
    | other o s => simp [dnsEntry] at hf
  | uri rx =>
    simp only [termMatch] at h
    obtain ⟨l, e, hs, he, hf⟩ := matchSan_pos c _ h
    cases e with
    | uri v =>
      simp only [uriEntry, Option.some.injEq] at hf
      obtain ⟨h1, h2, h3⟩ := regexMatch_spec lib rx v hf
      exact ⟨l, v, hs, he, h1, h2, h3⟩
    | dns v => simp [uriEntry] at hf
    | ip v => simp [uriEntry] at hf
    | rid o => simp [uriEntry] at hf
    | other o s => simp [uriEntry] at hf
  | ip a =>
    simp only [termMatch] at h
    obtain ⟨l, e, hs, he, hf⟩ := matchSan_pos c _ h
    cases e with
    | ip v =>
      simp only [ipEntry, Option.some.injEq, Bool.and_eq_true, beq_iff_eq] at hf
      exact ⟨l, hs, by rw [← hf.2]; exact he⟩
    | dns v => simp [ipEntry] at hf
    | uri v => simp [ipEntry] at hf
    | rid o => simp [ipEntry] at hf
    | other o s => simp [ipEntry] at hf
  | rid o =>
    simp only [termMatch] at h
    obtain ⟨l, e, hs, he, hf⟩ := matchSan_pos c _ h
    cases e with
    | rid o' =>
      simp only [ridEntry, Option.some.injEq, beq_iff_eq] at hf
      exact ⟨l, hs, by rw [← hf]; exact he⟩
    | dns v => simp [ridEntry] at hf
    | uri v => simp [ridEntry] at hf
    | ip v => simp [ridEntry] at hf
    | other o s => simp [ridEntry] at hf
  | other o rx =>
    simp only [termMatch] at h
    obtain ⟨l, e, hs, he, hf⟩ := matchSan_pos c _ h
    cases e with
    | other o' s =>
      simp only [otherEntry, Option.some.injEq, Bool.and_eq_true, beq_iff_eq] at hf
      obtain ⟨ho, hm⟩ := hf
      cases s with
      | none => simp [otherStr] at hm
      | some v =>
        simp only [otherStr] at hm
        obtain ⟨h1, h2, h3⟩ := regexMatch_spec lib rx v hm
        exact ⟨l, v, hs, by rw [← ho]; exact he, h1, h2, h3⟩
    | dns v => simp [otherEntry] at hf
    | uri v => simp [otherEntry] at hf
    | ip v => simp [otherEntry] at hf
    | rid o => simp [otherEntry] at hf

theorem nameOk_spec (lib : Lib) (conf : Conf) (c : Cert) (connected : Option (Bytes × Nat)) (realm : Option Bytes)
    (h : nameOk lib conf c connected realm = true) : NameSpec lib conf c connected realm := by
  unfold nameOk at h
  unfold NameSpec
  cases hn : conf.nameCheck with
  | false => exact Or.inl rfl
  | true =>
    simp only [hn, Bool.not_true] at h
    right
    by_cases hnai : naiOpt c realm = true
    · left
      cases realm with
      | none => simp [naiOpt] at hnai
      | some r => exact ⟨r, rfl, naiRealmCheck_spec c r (by simpa [naiOpt] using hnai)⟩
    · right
      simp only [hnai] at h
      cases hsn : conf.serverName with
      | some sn =>
        simp only [hsn] at h
        exact ⟨sn, 255, Or.inl ⟨rfl, rfl⟩, certNameCheck_spec lib conf.cnCheck (sn, 255) (by simpa using h)⟩
      | none =>
        simp only [hsn] at h
        cases hc : connected with
        | some hp =>
          simp only [hc] at h
          exact ⟨hp.1, hp.2, Or.inr (Or.inl ⟨rfl, rfl⟩), certNameCheck_spec lib conf.cnCheck hp (by simpa using h)⟩
        | none =>
          simp only [hc] at h
          have hany : conf.hostports.any (certNameCheck lib conf.cnCheck) = true := by
            revert h; cases conf.hostports.any (certNameCheck lib conf.cnCheck) <;> simp
          obtain ⟨hp, hmem, hchk⟩ := List.any_eq_true.mp hany
          exact ⟨hp.1, hp.2, Or.inr (Or.inr ⟨rfl, rfl, hmem⟩), certNameCheck_spec lib conf.cnCheck hp hchk⟩

/-- **C15.** Whatever the certificate contains and however the block is configured, `verifyconfcert`
    accepts only if the block's name check passes — switched off, satisfied by a NAIRealm equal to (or a
    one-label wildcard for) the looked-up realm, or by the library finding the expected name — and every
    MatchCertificateAttribute term is matched by an entry of the kind it names. -/
theorem verifyConf_accepts_only_matching (lib : Lib) (conf : Conf) (c : Cert) (connected : Option (Bytes × Nat))
    (realm : Option Bytes) (h : verifyConf lib conf c connected realm = true) : Accept lib conf c connected realm := by
  unfold verifyConf at h
  simp only [Bool.and_eq_true, List.all_eq_true, decide_eq_true_eq] at h
  exact ⟨nameOk_spec lib conf c connected realm h.1, fun t ht => termMatch_spec lib c t (h.2 t ht)⟩

/-- non-vacuity: a concrete certificate and block that are accepted -/
example : verifyConf { rx := fun _ _ => true, hostCheck := fun _ _ => 1, ipCheck := fun _ => 0, isIp := fun _ => false }
    { serverName := some [97], terms := [.dns [46]] } { sans := some [.dns [97]] } none none = true := by decide

end Rsp.Props.C15
