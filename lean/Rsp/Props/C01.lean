/-
  Property C01 — requests reach the routed server intact: every stage of the
  request pipeline passes the attributes it is not configured to touch
  byte-identical, exactly once and in order. Stage theorems for EVERY attribute
  list, EVERY rewrite configuration and EVERY regex oracle.
-/
import Rsp.Lemmas.World
import Rsp.Spec.Emit
namespace Rsp.Props.C01
open Rsp Rsp.Radmsg Rsp.Rewrite Rsp.World

/-- attribute types a rewrite block may change, remove or introduce -/
def touches (rw : Rewrite) (t : UInt8) : Bool :=
  rw.whitelist ||
  plainHit rw.rmAttrs t ||
  (t = 26 && (rw.rmVAttrs.isSome || rw.modVAttrs.isSome)) ||
  ((rw.modAttrs.getD []).any (·.t = t)) ||
  ((rw.addAttrs.getD []).any (·.t = t)) ||
  ((rw.supAttrs.getD []).any (·.t = t))

/-! ### removal stage -/

/-- whatever happens to an attribute in the removal stage, its type is unchanged -/
theorem rmOne_cases (rm : Option (List UInt8)) (rmv : Option (List (Nat × Nat))) (inv : Bool) (a : Tlv) :
    rmOne rm rmv inv a = none ∨ rmOne rm rmv inv a = some a ∨ ∃ v', rmOne rm rmv inv a = some { a with v := v' } := by
  unfold rmOne
  by_cases hph : plainHit rm a.t = true
  · rw [if_pos hph]; by_cases hi : (true != inv) = true
    · rw [if_pos hi]; left; rfl
    · rw [if_neg hi]; right; left; rfl
  · rw [if_neg hph]
    cases rmv with
    | none =>
      simp only
      by_cases hi : (false != inv) = true
      · rw [if_pos hi]; left; rfl
      · rw [if_neg hi]; right; left; rfl
    | some l =>
      simp only
      by_cases h26 : a.t = 26
      · rw [if_pos h26]
        by_cases hv : ((vendorRm l inv a.v).1 != inv) = true
        · rw [if_pos hv]; left; rfl
        · rw [if_neg hv]; right; right; exact ⟨_, rfl⟩
      · rw [if_neg h26]
        by_cases hi : (false != inv) = true
        · rw [if_pos hi]; left; rfl
        · rw [if_neg hi]; right; left; rfl

theorem rmOne_type (rm : Option (List UInt8)) (rmv : Option (List (Nat × Nat))) (inv : Bool) (a a' : Tlv)
    (h : rmOne rm rmv inv a = some a') : a'.t = a.t := by
  rcases rmOne_cases rm rmv inv a with h1 | h1 | ⟨v', h1⟩
  · rw [h1] at h; cases h
  · rw [h1] at h; cases h; rfl
  · rw [h1] at h; cases h; rfl

/-- an attribute the (non-whitelist) rules do not name is kept as it is -/
theorem rmOne_untouched (rm : Option (List UInt8)) (rmv : Option (List (Nat × Nat))) (a : Tlv)
    (h1 : plainHit rm a.t = false) (h2 : a.t = 26 → rmv = none) :
    rmOne rm rmv false a = some a := by
  unfold rmOne
  simp only [h1, Bool.false_eq_true, if_false]
  cases hrmv : rmv with
  | none => rfl
  | some l =>
    by_cases h26 : a.t = 26
    · have := h2 h26; rw [hrmv] at this; cases this
    · simp [h26]

theorem filterMap_filter_frame {f : Tlv → Option Tlv} (U : UInt8 → Bool) (as : List Tlv)
    (htype : ∀ a a', f a = some a' → a'.t = a.t) (hkeep : ∀ a, U a.t = true → f a = some a) :
    (as.filterMap f).filter (fun a => U a.t) = as.filter (fun a => U a.t) := by
  induction as with
  | nil => rfl
  | cons a rest ih =>
    simp only [List.filterMap_cons, List.filter_cons]
    by_cases hu : U a.t = true
    · simp [hkeep a hu, hu, ih]
    · have hu' : U a.t = false := by simpa using hu
      cases hf : f a with
      | none => simp [hu', ih]
      | some a' => simp [List.filter_cons, htype a a' hf, hu', ih]

theorem rewriteRm_frame (rm : Option (List UInt8)) (rmv : Option (List (Nat × Nat))) (as : List Tlv)
    (U : UInt8 → Bool)
    (hU : ∀ t, U t = true → plainHit rm t = false ∧ (t = 26 → rmv = none)) :
    (rewriteRm rm rmv false as).filter (fun a => U a.t) = as.filter (fun a => U a.t) := by
  unfold rewriteRm
  exact filterMap_filter_frame U as (rmOne_type rm rmv false) (fun a hu => rmOne_untouched rm rmv a (hU a.t hu).1 (hU a.t hu).2)

/-- removal never reorders, never duplicates: the surviving types are a sublist of the original types -/
theorem rewriteRm_sublist (rm : Option (List UInt8)) (rmv : Option (List (Nat × Nat))) (inv : Bool) (as : List Tlv) :
    ((rewriteRm rm rmv inv as).map (·.t)).Sublist (as.map (·.t)) := by
  unfold rewriteRm
  induction as with
  | nil => exact List.Sublist.slnil
  | cons a rest ih =>
    simp only [List.filterMap_cons, List.map_cons]
    cases hf : rmOne rm rmv inv a with
    | none => exact List.Sublist.cons _ ih
    | some a' =>
      simp only [List.map_cons, rmOne_type rm rmv inv a a' hf]
      exact List.Sublist.cons₂ _ ih

/-! ### modification stage -/

theorem applyRules_untouched (f : ModRule → Bytes → Option Bytes) (rules : List ModRule) (v : Bytes)
    (hf : ∀ r ∈ rules, f r v = some v) : applyRules f rules v = some v := by
  induction rules with
  | nil => rfl
  | cons r rs ih =>
    simp only [applyRules, hf r (by simp)]
    exact ih (fun r' h' => hf r' (by simp [h']))

theorem modOne_type (rx : RxOracle) (mods modvs : List ModRule) (a a' : Tlv) (h : modOne rx mods modvs a = some a') : a'.t = a.t := by
  unfold modOne at h
  split at h
  · split at h
    · cases h; rfl
    · cases hx : applyRules (fun r v => if r.vendor = beVal (a.v.take 4) then modVAttr rx r v else some v) modvs a.v with
      | none => rw [hx] at h; cases h
      | some v => rw [hx] at h; cases h; rfl
  · cases hx : applyRules (fun r v => if r.t = a.t then modAttr rx r v else some v) mods a.v with
    | none => rw [hx] at h; cases h
    | some v => rw [hx] at h; cases h; rfl

theorem modOne_untouched (rx : RxOracle) (mods modvs : List ModRule) (a : Tlv) (h26 : a.t ≠ 26)
    (hnone : (mods.any (·.t = a.t)) = false) : modOne rx mods modvs a = some a := by
  unfold modOne
  rw [if_neg h26]
  have : applyRules (fun r v => if r.t = a.t then modAttr rx r v else some v) mods a.v = some a.v := by
    apply applyRules_untouched
    intro r hr'
    have : ¬ r.t = a.t := by
      intro he
      have : mods.any (·.t = a.t) = true := List.any_eq_true.mpr ⟨r, hr', by simp [he]⟩
      rw [hnone] at this; cases this
    simp [this]
  rw [this]; rfl

theorem modOne_untouched26 (rx : RxOracle) (mods : List ModRule) (a : Tlv) (h26 : a.t = 26) :
    modOne rx mods [] a = some a := by
  unfold modOne
  rw [if_pos h26]
  split
  · rfl
  · simp [applyRules]

/-- modification maps attributes one to one (same types, same count, same order), and leaves
    the value of every attribute no rule names untouched -/
theorem rewriteMod_shape (rx : RxOracle) (mods modvs : List ModRule) (as out : List Tlv)
    (h : rewriteMod rx mods modvs as = some out) :
    out.map (·.t) = as.map (·.t) ∧
    (∀ U : UInt8 → Bool, (∀ t, U t = true → (t = 26 → modvs = []) ∧ (t ≠ 26 → (mods.any (·.t = t)) = false)) →
        out.filter (fun a => U a.t) = as.filter (fun a => U a.t)) := by
  induction as generalizing out with
  | nil => simp [rewriteMod] at h; subst h; exact ⟨rfl, fun _ _ => rfl⟩
  | cons a rest ih =>
    simp only [rewriteMod] at h
    cases ha : modOne rx mods modvs a with
    | none => rw [ha] at h; cases h
    | some a' =>
      rw [ha] at h
      cases hr : rewriteMod rx mods modvs rest with
      | none => rw [hr] at h; cases h
      | some out' =>
        rw [hr] at h
        simp only [Option.map_some, Option.some.injEq] at h
        subst h
        obtain ⟨ht, hfr⟩ := ih out' hr
        have hat := modOne_type rx mods modvs a a' ha
        refine ⟨by simp [ht, hat], ?_⟩
        intro U hU
        simp only [List.filter_cons, hat]
        by_cases hu : U a.t = true
        · obtain ⟨hv, hp⟩ := hU a.t hu
          have : modOne rx mods modvs a = some a := by
            by_cases h26 : a.t = 26
            · rw [hv h26]; exact modOne_untouched26 rx mods a h26
            · exact modOne_untouched rx mods modvs a h26 (hp h26)
          rw [this] at ha; cases ha
          simp [hu, hfr U hU]
        · have hu' : U a.t = false := by simpa using hu
          simp [hu', hfr U hU]

/-! ### supplement / add stages only append -/

theorem rewriteSup_appends (sup as out : List Tlv) (h : rewriteSup sup as = some out) :
    ∃ added, out = as ++ added ∧ ∀ x ∈ added, x ∈ sup := by
  induction sup generalizing as with
  | nil => simp [rewriteSup] at h; exact ⟨[], by simp [h], by simp⟩
  | cons s ss ih =>
    simp only [rewriteSup] at h
    split at h
    · cases h
    · obtain ⟨ad, h1, h2⟩ := ih as h
      exact ⟨ad, h1, fun x hx => by simp [h2 x hx]⟩
    · obtain ⟨ad, h1, h2⟩ := ih (as ++ [s]) h
      refine ⟨s :: ad, by simp [h1], ?_⟩
      intro x hx
      rcases List.mem_cons.mp hx with rfl | hx
      · simp
      · simp [h2 x hx]

theorem filter_append_untouched (U : Tlv → Bool) (as added : List Tlv) (h : ∀ x ∈ added, U x = false) :
    (as ++ added).filter U = as.filter U := by
  rw [List.filter_append]
  have : added.filter U = [] := by
    rw [List.filter_eq_nil_iff]; intro x hx; simp [h x hx]
  rw [this, List.append_nil]

/-- **Rewrite frame theorem.** For every attribute list, every rewrite block and
    every behaviour of the regex engine: if the block succeeds, the attributes
    of every type it does not name come out byte-identical, exactly once and in
    their original order. -/
theorem dorewrite_frame (rx : RxOracle) (rw : Rewrite) (as : List Tlv) (hok : (dorewrite rx (some rw) as).ok = true) :
    (dorewrite rx (some rw) as).attrs.filter (fun a => !touches rw a.t) = as.filter (fun a => !touches rw a.t) := by
  by_cases hwl : rw.whitelist = true
  · -- whitelist mode: every type counts as touched, the frame is empty
    have : ∀ l : List Tlv, l.filter (fun a => !touches rw a.t) = [] := by
      intro l; rw [List.filter_eq_nil_iff]; intro x _; simp [touches, hwl]
    rw [this, this]
  · have hwl' : rw.whitelist = false := by simpa using hwl
    unfold dorewrite at hok ⊢
    simp only at hok ⊢
    simp only [Bool.and_eq_true] at hok
    obtain ⟨hm, hs⟩ := hok
    -- stage 1: removal
    have h1 : (stageRm rw as).filter (fun a => !touches rw a.t) = as.filter (fun a => !touches rw a.t) := by
      unfold stageRm
      split
      · rw [hwl']
        apply rewriteRm_frame rw.rmAttrs rw.rmVAttrs as (fun t => !touches rw t)
        intro t ht
        simp only [touches, hwl', Bool.false_or, Bool.not_eq_true', Bool.or_eq_false_iff, Bool.and_eq_false_iff] at ht
        obtain ⟨⟨⟨⟨hp, hv⟩, _⟩, _⟩, _⟩ := ht
        refine ⟨hp, ?_⟩
        intro h26
        rcases hv with hv | hv
        · simp [h26] at hv
        · cases hrv : rw.rmVAttrs with
          | none => rfl
          | some l => simp [hrv] at hv
      · rfl
    -- stage 2: modification
    have h2 : (stageMod rx rw (stageRm rw as)).2.filter (fun a => !touches rw a.t) = (stageRm rw as).filter (fun a => !touches rw a.t) := by
      unfold stageMod at hm ⊢
      split at hm
      · next hcond =>
        rw [if_pos hcond]
        cases hr : rewriteMod rx (rw.modAttrs.getD []) (rw.modVAttrs.getD []) (stageRm rw as) with
        | none => simp [hr] at hm
        | some x =>
          simp only
          apply (rewriteMod_shape rx _ _ _ x hr).2 (fun t => !touches rw t)
          intro t ht
          simp only [touches, hwl', Bool.false_or, Bool.not_eq_true', Bool.or_eq_false_iff, Bool.and_eq_false_iff] at ht
          obtain ⟨⟨⟨⟨_, hv⟩, hmod⟩, _⟩, _⟩ := ht
          refine ⟨?_, fun _ => hmod⟩
          intro h26
          rcases hv with hv | hv
          · simp [h26] at hv
          · cases hmv : rw.modVAttrs with
            | none => rfl
            | some l => simp [hmv] at hv
      · next hcond => rw [if_neg hcond]
    -- stage 3: supplement only appends attributes of types it names
    have h3 : (stageSup rw (stageMod rx rw (stageRm rw as)).2).2.filter (fun a => !touches rw a.t) =
        (stageMod rx rw (stageRm rw as)).2.filter (fun a => !touches rw a.t) := by
      unfold stageSup at hs ⊢
      cases hsup : rw.supAttrs with
      | none => rfl
      | some sup =>
        simp only [hsup] at hs ⊢
        cases hr : rewriteSup sup (stageMod rx rw (stageRm rw as)).2 with
        | none => simp [hr] at hs
        | some x =>
          simp only
          obtain ⟨added, hx, hmem⟩ := rewriteSup_appends sup _ x hr
          rw [hx]
          apply filter_append_untouched
          intro y hy
          have : (sup.any (·.t = y.t)) = true := List.any_eq_true.mpr ⟨y, hmem y hy, by simp⟩
          simp [touches, hsup, this]
    -- stage 4: add only appends attributes of types it names
    have h4 : (stageAdd rw (stageSup rw (stageMod rx rw (stageRm rw as)).2).2).filter (fun a => !touches rw a.t) =
        (stageSup rw (stageMod rx rw (stageRm rw as)).2).2.filter (fun a => !touches rw a.t) := by
      unfold stageAdd
      cases hadd : rw.addAttrs with
      | none => rfl
      | some add =>
        simp only
        apply filter_append_untouched
        intro y hy
        have : (add.any (·.t = y.t)) = true := List.any_eq_true.mpr ⟨y, hy, by simp⟩
        simp [touches, hadd, this]
    rw [h4, h3, h2, h1]

/-- no rewrite block configured: nothing changes -/
theorem dorewrite_none (rx : RxOracle) (as : List Tlv) : dorewrite rx none as = { ok := true, attrs := as } := rfl

/-- `ensuremsgauthfront` touches only Message-Authenticator (and the reserved type 0) -/
theorem ensureMsgAuthFront_frame (as : List Tlv) (U : UInt8 → Bool) (h80 : U 80 = false) (h0 : U 0 = false) :
    (ensureMsgAuthFront as).filter (fun a => U a.t) = as.filter (fun a => U a.t) := by
  unfold ensureMsgAuthFront
  simp only [List.filter_cons, h80, Bool.false_eq_true, if_false]
  apply rewriteRm_frame (some [80]) none as U
  intro t ht
  refine ⟨?_, fun _ => rfl⟩
  unfold plainHit strchrHit
  have h1 : t ≠ 0 := by intro h; rw [h, h0] at ht; cases ht
  have h2 : t ≠ 80 := by intro h; rw [h, h80] at ht; cases ht
  simp [h1, h2]

/-- the TTL stage rewrites at most the TTL attribute (same type, same position) -/
theorem addttlattr_appends (ttlType : Nat × Nat) (n : Nat) (as : List Tlv) :
    ∃ added, addttlattr ttlType n as = as ++ added ∧ added.length ≤ 1 := by
  unfold addttlattr
  simp only
  split
  · exact ⟨_, rfl, by simp⟩
  · split
    · exact ⟨_, rfl, by simp⟩
    · exact ⟨[], by simp, by simp⟩

/-! ### the stages of `radsrv` between routing and `sendrq` (`World.chapComplete`, `World.outAttrs`) -/

open Rsp.World in
/-- the attribute AddTTL adds has the configured TTL type or is a Vendor-Specific attribute: every other type is left as it was -/
theorem addttlattr_frame (ttlType : Nat × Nat) (n : Nat) (as : List Tlv) (U : UInt8 → Bool)
    (hT : U (UInt8.ofNat ttlType.1) = false) (h26 : U 26 = false) :
    (addttlattr ttlType n as).filter (fun a => U a.t) = as.filter (fun a => U a.t) := by
  unfold addttlattr
  simp only
  split
  · exact filter_append_untouched _ _ _ (by intro x hx; simp at hx; subst hx; exact hT)
  · split
    · rename_i a h
      have : a.t = 26 := by
        unfold makeVendorTlv at h
        split at h
        · cases h
        · cases h; rfl
      exact filter_append_untouched _ _ _ (by intro x hx; simp at hx; subst hx; rw [this]; exact h26)
    · rfl

open Rsp.World in
/-- **C01 (CHAP).** a request with CHAP-Password and no CHAP-Challenge gains exactly one attribute, at the end: a CHAP-Challenge
    holding the client's Request Authenticator; every other request is left as it is -/
theorem chapComplete_spec (as : List Tlv) (auth : Bytes) :
    (as.any (·.t = 3) = true ∧ as.any (·.t = 60) = false → chapComplete as auth = as ++ [{ t := 60, v := auth }]) ∧
    (¬ (as.any (·.t = 3) = true ∧ as.any (·.t = 60) = false) → chapComplete as auth = as) := by
  unfold chapComplete
  constructor
  · intro ⟨h3, h60⟩; simp [h3, h60]
  · intro h
    by_cases h3 : as.any (·.t = 3) = true <;> by_cases h60 : as.any (·.t = 60) = true <;> simp_all

open Rsp.World in
/-- **C01 (frame of the last stages).** Message-Authenticator placement and AddTTL leave every attribute that is not a
    Message-Authenticator, not of the reserved type 0, not of the TTL type and not Vendor-Specific byte-identical, once, in order -/
theorem outAttrs_frame (opts : Options) (sc : SrvConf) (code : UInt8) (ttlres : Int) (as6 : List Tlv) (U : UInt8 → Bool)
    (h80 : U 80 = false) (h0 : U 0 = false) (hT : U (UInt8.ofNat opts.ttlType.1) = false) (h26 : U 26 = false) :
    (outAttrs opts sc code ttlres as6).filter (fun a => U a.t) = as6.filter (fun a => U a.t) := by
  unfold outAttrs
  simp only
  have h7 : (if code = 1 then ensureMsgAuthFront as6 else as6).filter (fun a => U a.t) = as6.filter (fun a => U a.t) := by
    split
    · exact ensureMsgAuthFront_frame as6 U h80 h0
    · rfl
  split
  · rw [addttlattr_frame _ _ _ U hT h26]; exact h7
  · exact h7

open Rsp.World in
/-- **C01 (Message-Authenticator).** what goes to the server for an Access-Request starts with a Message-Authenticator, and it is
    the only one -/
theorem outAttrs_msgauth_first (opts : Options) (sc : SrvConf) (ttlres : Int) (as6 : List Tlv) :
    ∃ rest, outAttrs opts sc 1 ttlres as6 = { t := 80, v := zeros 16 } :: rest := by
  unfold outAttrs ensureMsgAuthFront
  simp only [if_true]
  split
  · obtain ⟨added, h, _⟩ := addttlattr_appends opts.ttlType (if sc.addttl ≠ 0 then sc.addttl else opts.addttl)
      ({ t := 80, v := zeros 16 } :: Rewrite.rewriteRm (some [80]) none false as6)
    exact ⟨_, by rw [h]; rfl⟩
  · exact ⟨_, rfl⟩

attribute [local irreducible] World.sendrq World.outAttrs World.chapComplete Rewrite.dorewrite World.loopPrevents in
open Rsp.World in
/-- **C01 (what is handed to `sendrq`).** for a request without User-Password (C03 has that stage), a server that loop prevention does
    not exclude and whose rewriteOut (if any) succeeds: the message queued for the server is the client's message with a new
    authenticator and with exactly these attributes - CHAP completion, the server's rewriteOut, then `outAttrs` -, queued by ONE call
    of `sendrq` (C11: which places it in at most one slot) for the chosen server -/
theorem forward_message (w : World) (o : Nat) (cc : CliConf) (m0 : Radmsg.Msg) (as3 : List Tlv) (ttlres : Int) (si : Nat) (s : Server)
    (hs : getSrv w si = some s) (hl : loopPrevents w.opts cc s.conf = false)
    (hp : (chapComplete as3 m0.auth).findIdx? (·.t = 2) = none)
    (hok : s.conf.rwOut.isSome = true → (dorewrite w.rx s.conf.rwOut (chapComplete as3 m0.auth)).ok = true) :
    radsrvForward w o cc m0 as3 ttlres si =
      let wa := if m0.code = 4 then (w, zeros 16) else takeRnd w 16
      let as6 := if s.conf.rwOut.isSome then (dorewrite wa.1.rx s.conf.rwOut (chapComplete as3 m0.auth)).attrs else chapComplete as3 m0.auth
      sendrq (updRq wa.1 o fun r => { r with msg := some { m0 with attrs := outAttrs wa.1.opts s.conf m0.code ttlres as6, auth := wa.2 },
                                               to := some si }) o := by
  unfold radsrvForward
  simp only [hs, Option.getD, hl, Bool.false_eq_true, if_false, hp]
  have hrx : (if m0.code = 4 then (w, zeros 16) else takeRnd w 16).1.rx = w.rx := by
    split
    · rfl
    · unfold takeRnd; split <;> rfl
  rw [hrx]
  have h1 : ¬ (s.conf.rwOut.isSome = true ∧ (!(dorewrite w.rx s.conf.rwOut (chapComplete as3 m0.auth)).ok) = true) := by
    intro ⟨a, b⟩; rw [hok a] at b; exact Bool.noConfusion b
  simp only [h1, if_false]

end Rsp.Props.C01
