/-
  Property C17 for `replyh` as a whole: whatever bytes a server sends and whatever state the proxy is in, after
  `replyh` every count equals its holders again — an accepted reply moves ONE new reference into the client's reply
  queue (or drops it when the reply cannot be built) and releases the outstanding slot's reference; everything
  else leaves the counts alone.
-/
import Rsp.Props.C17Radsrv
namespace Rsp.Props.C17
open Rsp Rsp.World Rsp.Refs

/-- the invariant together with "request `o` is alive" -/
structure Live (w : World) (fl : Nat → Nat) (o : Nat) : Prop where
  inv : Inv w fl
  live : (getRq w o).isSome

theorem Live.updSrv {w : World} {fl : Nat → Nat} {o : Nat} (h : Live w fl o) (si : Nat) (f : Server → Server)
    (hf : ∀ s, (f s).slots = s.slots) : Live (updSrv w si f) fl o :=
  ⟨updSrv_noslots_inv w fl si f hf h.inv, by rw [getRq_updSrv]; exact h.live⟩

theorem Live.takeRnd {w : World} {fl : Nat → Nat} {o : Nat} (h : Live w fl o) (n : Nat) : Live (takeRnd w n).1 fl o := by
  unfold World.takeRnd
  cases w.rnds with
  | nil => exact h
  | cons r rest => exact ⟨same_inv w _ fl rfl rfl rfl rfl h.inv, h.live⟩

theorem Live.tunnelOne {w : World} {fl : Nat → Nat} {o : Nat} (h : Live w fl o) (a b c d : Bytes) (ta : Radmsg.Tlv) :
    Live (tunnelOne a b c d w ta).1 fl o := by
  unfold World.tunnelOne
  simp only
  repeat' first
    | exact h.takeRnd 2
    | split

theorem Live.tunnelLoop {w : World} {fl : Nat → Nat} {o : Nat} (h : Live w fl o) (a b c d : Bytes) (l : List Radmsg.Tlv) :
    Live (tunnelLoop a b c d w l).1 fl o := by
  induction l generalizing w with
  | nil => exact h
  | cons x rest ih =>
    unfold World.tunnelLoop
    split
    · exact ih h
    · have h1 := h.tunnelOne a b c d x
      split
      · rename_i w' heq
        rw [heq] at h1; exact h1
      · rename_i w' a' heq
        rw [heq] at h1; exact ih h1

/-- the hand-over at the end of an accepted reply: message stored, one new reference into the reply queue, the slot's
    reference released -/
theorem replyhSend_inv (w : World) (fl : Nat → Nat) (si id o : Nat) (f : Rq → Rq) (hf : ∀ r, (f r).refs = r.refs) (h : Live w fl o) :
    Inv (freerqoutdata (sendreply (newrqref (updRq w o f) o) o) si id) fl := by
  have h1 := updRq_inv w fl o f hf h.inv
  have hl1 : (getRq (updRq w o f) o).isSome := by
    obtain ⟨r, hr⟩ := Option.isSome_iff_exists.mp h.live
    rw [getRq_updRq_same w o f r hr]; rfl
  have h2 := newrqref_inv _ fl o h1 hl1
  have h3 := sendreply_inv _ _ o h2 (by simp [one])
  exact freerqoutdata_inv _ fl si id (inv_congr_fl h3 (fun x => by omega))

theorem pair_live {W1 : World} {fl : Nat → Nat} {o : Nat} (h1 : Live W1 fl o) (c : Prop) [Decidable c] (a b c' d : Bytes)
    (l : List Radmsg.Tlv) (x : Option (List Radmsg.Tlv)) :
    Live (if c then tunnelLoop a b c' d W1 l else (W1, x)).1 fl o := by
  split
  · exact h1.tunnelLoop a b c' d l
  · exact h1

attribute [local irreducible] Rewrite.dorewrite in
theorem replyhDeliver_inv (w : World) (fl : Nat → Nat) (si id o : Nat) (rq : Rq) (m : Radmsg.Msg) (cc : CliConf) (as4 : List Radmsg.Tlv)
    (ttlres : Int) (h : Live w fl o) : Inv (replyhDeliver w si id o rq m cc as4 ttlres) fl := by
  unfold replyhDeliver
  simp only
  repeat' first
    | exact h.inv
    | exact replyhSend_inv _ fl si id o _ (fun _ => rfl) h
    | split

attribute [local irreducible] World.tunnelLoop World.msLoop Rewrite.dorewrite World.checkttl World.replyhDeliver World.cliConfOf in
theorem replyhCore_inv (w : World) (fl : Nat → Nat) (si id o : Nat) (s0 : Server) (rq : Rq) (m : Radmsg.Msg) (h : Live w fl o) :
    Inv (replyhCore w si id o s0 rq m) fl := by
  unfold replyhCore
  simp only
  have h0 : Live (updSrv w si fun s => { s with lastrcv := w.now }) fl o := h.updSrv si _ (fun _ => rfl)
  by_cases hp : isProbeRq rq = true
  · simp only [hp, if_true]
    exact updSrv_noslots_inv _ fl si _ (fun _ => rfl) (freerqoutdata_inv _ fl si id h0.inv)
  · simp only [hp, Bool.false_eq_true, if_false]
    have h1 := h0.updSrv si (fun s => { s with lastreply := (updSrv w si fun s => { s with lastrcv := w.now }).now }) (fun _ => rfl)
    repeat' first
      | exact h1.inv
      | exact (pair_live h1 _ _ _ _ _ _ _).inv
      | exact replyhDeliver_inv _ fl si id o rq m _ _ _ (pair_live h1 _ _ _ _ _ _ _)
      | split

/-- whatever a server slot points at is alive -/
theorem slot_entry_live (w : World) (fl : Nat → Nat) (si i o' : Nat) (s : Server) (h : Inv w fl)
    (hs : getSrv w si = some s) (hi : i < s.slots.length) (he : s.slots[i].rq = some o') : (getRq w o').isSome := by
  cases hr : getRq w o' with
  | some r => rfl
  | none =>
    exfalso
    have h0 := (h.dead o' hr).1
    have h1 := holders_slotSet w si i {} s o' hs hi
    simp only [he, beq_self_eq_true, if_true] at h1
    have : (({} : Slot).rq == some o') = false := rfl
    simp only [this, Bool.false_eq_true, if_false] at h1
    omega

attribute [local irreducible] World.replyhCore Radmsg.parse in
/-- **C17 for `replyh` as a whole.** For every byte string from a server and every state in which the counts are right:
    after `replyh` the counts are right again (nothing in flight). -/
theorem replyh_inv (w : World) (fl : Nat → Nat) (si : Nat) (buf : Bytes) (h : Inv w fl) : Inv (replyh w si buf).1 fl := by
  unfold replyh
  cases hs : getSrv w si with
  | none => exact h
  | some s0 =>
    simp only
    have h0 : Inv (updSrv w si fun s => { s with lost := 0 }) fl := updSrv_noslots_inv w fl si _ (fun _ => rfl) h
    repeat' first
      | exact h0
      | (rename_i o rq heq1 heq2 _ _ _
         refine replyhCore_inv _ fl si _ o s0 rq _ ⟨h0, ?_⟩
         have : getRq (updSrv w si fun s => { s with lost := 0 }) o = some rq := by
           rw [heq1] at heq2; exact heq2
         rw [this]; rfl)
      | split

end Rsp.Props.C17
