/-
  Property C17, the whole-history part: in the World model every live request's reference count
  equals the number of places that point at it plus the references held by code that is running,
  and nothing points at a released request. Proved for the reference-moving primitives and for
  the operations built from them.
-/
import Rsp.Props.C17
import Rsp.Lemmas.Refs
namespace Rsp.Props.C17
open Rsp Rsp.World Rsp.Refs

/-- one in-flight reference on `o` -/
def one (o : Nat) : Nat → Nat := fun x => if x = o then 1 else 0

/-- the invariant; `fl o` = references on `o` held by the code currently running (0 between operations) -/
structure Inv (w : World) (fl : Nat → Nat) : Prop where
  refs : ∀ o r, getRq w o = some r → r.refs = holders w o + fl o
  pos : ∀ o r, getRq w o = some r → 1 ≤ r.refs
  dead : ∀ o, getRq w o = none → holders w o = 0 ∧ fl o = 0

theorem inv_congr_fl {w : World} {fl fl' : Nat → Nat} (h : Inv w fl) (he : ∀ o, fl' o = fl o) : Inv w fl' :=
  ⟨fun o r hr => by rw [he]; exact h.refs o r hr, h.pos, fun o ho => by rw [he]; exact h.dead o ho⟩

/-- **dropping a reference** held by running code -/
theorem freerq_inv (w : World) (fl : Nat → Nat) (o : Nat) (h : Inv w fl) (hfl : 1 ≤ fl o) :
    Inv (freerq w o) (fun x => fl x - one o x) := by
  cases hr : getRq w o with
  | none => have := (h.dead o hr).2; omega
  | some r =>
    have href := h.refs o r hr
    by_cases h1 : r.refs ≤ 1
    · -- last reference: released
      obtain ⟨hgone, _⟩ := freerq_last w o r hr h1
      refine ⟨?_, ?_, ?_⟩
      · intro o' r' hr'
        by_cases ho : o' = o
        · subst ho; rw [hgone] at hr'; cases hr'
        · rw [freerq_other w o o' ho] at hr'
          rw [holders_freerq]
          simp only [one, ho, if_false, Nat.sub_zero]
          exact h.refs o' r' hr'
      · intro o' r' hr'
        by_cases ho : o' = o
        · subst ho; rw [hgone] at hr'; cases hr'
        · rw [freerq_other w o o' ho] at hr'; exact h.pos o' r' hr'
      · intro o' ho'
        rw [holders_freerq]
        by_cases ho : o' = o
        · subst ho
          simp only [one, if_true]
          constructor <;> omega
        · rw [freerq_other w o o' ho] at ho'
          simp only [one, ho, if_false, Nat.sub_zero]
          exact h.dead o' ho'
    · obtain ⟨hkeep, _⟩ := freerq_keeps w o r hr (by omega)
      refine ⟨?_, ?_, ?_⟩
      · intro o' r' hr'
        rw [holders_freerq]
        by_cases ho : o' = o
        · subst ho
          rw [hkeep] at hr'
          cases hr'
          simp only [one, if_true]
          omega
        · rw [freerq_other w o o' ho] at hr'
          simp only [one, ho, if_false, Nat.sub_zero]
          exact h.refs o' r' hr'
      · intro o' r' hr'
        by_cases ho : o' = o
        · subst ho; rw [hkeep] at hr'; cases hr'; simp only; omega
        · rw [freerq_other w o o' ho] at hr'; exact h.pos o' r' hr'
      · intro o' ho'
        by_cases ho : o' = o
        · subst ho; rw [hkeep] at ho'; cases ho'
        · rw [freerq_other w o o' ho] at ho'
          rw [holders_freerq]
          simp only [one, ho, if_false, Nat.sub_zero]
          exact h.dead o' ho'

theorem find_upd_same (heap : List (Nat × Rq)) (o : Nat) (f : Rq → Rq) (r : Rq)
    (h : (heap.find? (·.1 = o)).map (·.2) = some r) :
    ((heap.map fun p => if p.1 = o then (o, f p.2) else p).find? (·.1 = o)).map (·.2) = some (f r) := by
  induction heap with
  | nil => simp at h
  | cons p t ih =>
    simp only [List.map_cons, List.find?_cons] at h ⊢
    by_cases hp : p.1 = o
    · simp only [hp, decide_true, Option.map_some, Option.some.injEq] at h
      simp [hp, h]
    · simp only [hp, decide_false] at h
      simp only [hp, if_false, decide_false]
      exact ih h

theorem find_upd_other (heap : List (Nat × Rq)) (o o' : Nat) (f : Rq → Rq) (hne : o' ≠ o) :
    ((heap.map fun p => if p.1 = o then (o, f p.2) else p).find? (·.1 = o')) = heap.find? (·.1 = o') := by
  induction heap with
  | nil => rfl
  | cons p t ih =>
    simp only [List.map_cons, List.find?_cons]
    by_cases hp : p.1 = o
    · have hp' : ¬ p.1 = o' := by rw [hp]; exact fun h => hne h.symm
      have : ¬ o = o' := fun h => hne h.symm
      simp only [hp, if_true, this, decide_false, hp']
      exact ih
    · simp only [hp, if_false]
      by_cases hq : p.1 = o'
      · simp [hq]
      · simp only [hq, decide_false]; exact ih

theorem find_upd_none (heap : List (Nat × Rq)) (o : Nat) (f : Rq → Rq) (h : heap.find? (·.1 = o) = none) :
    ((heap.map fun p => if p.1 = o then (o, f p.2) else p).find? (·.1 = o)) = none := by
  induction heap with
  | nil => rfl
  | cons p t ih =>
    simp only [List.map_cons, List.find?_cons] at h ⊢
    by_cases hp : p.1 = o
    · simp [hp] at h
    · simp only [hp, decide_false] at h
      simp only [hp, if_false, decide_false]
      exact ih h

theorem getRq_updRq_same (w : World) (o : Nat) (f : Rq → Rq) (r : Rq) (h : getRq w o = some r) :
    getRq (updRq w o f) o = some (f r) := by
  unfold getRq at h
  unfold getRq updRq
  exact find_upd_same w.heap o f r h

theorem getRq_updRq_other (w : World) (o o' : Nat) (f : Rq → Rq) (hne : o' ≠ o) :
    getRq (updRq w o f) o' = getRq w o' := by
  unfold getRq updRq
  simp only
  rw [find_upd_other w.heap o o' f hne]

theorem getRq_updRq_none (w : World) (o o' : Nat) (f : Rq → Rq) (h : getRq w o' = none) : getRq (updRq w o f) o' = none := by
  by_cases ho : o' = o
  · subst ho
    unfold getRq at h
    unfold getRq updRq
    simp only
    have : w.heap.find? (·.1 = o') = none := by
      cases hf : w.heap.find? (·.1 = o') with
      | none => rfl
      | some x => simp [hf] at h
    rw [find_upd_none w.heap o' f this]; rfl
  · rw [getRq_updRq_other w o o' f ho]; exact h

/-- updating fields of a request other than its count keeps the invariant -/
theorem updRq_inv (w : World) (fl : Nat → Nat) (o : Nat) (f : Rq → Rq) (hf : ∀ r, (f r).refs = r.refs) (h : Inv w fl) :
    Inv (updRq w o f) fl := by
  refine ⟨?_, ?_, ?_⟩
  · intro o' r' hr'
    rw [holders_updRq]
    by_cases ho : o' = o
    · subst ho
      cases hr : getRq w o' with
      | none => rw [getRq_updRq_none w o' o' f hr] at hr'; cases hr'
      | some r =>
        rw [getRq_updRq_same w o' f r hr] at hr'
        cases hr'
        rw [hf]; exact h.refs o' r hr
    · rw [getRq_updRq_other w o o' f ho] at hr'; exact h.refs o' r' hr'
  · intro o' r' hr'
    by_cases ho : o' = o
    · subst ho
      cases hr : getRq w o' with
      | none => rw [getRq_updRq_none w o' o' f hr] at hr'; cases hr'
      | some r =>
        rw [getRq_updRq_same w o' f r hr] at hr'
        cases hr'
        rw [hf]; exact h.pos o' r hr
    · rw [getRq_updRq_other w o o' f ho] at hr'; exact h.pos o' r' hr'
  · intro o' ho'
    rw [holders_updRq]
    cases hr : getRq w o' with
    | none => exact h.dead o' hr
    | some r =>
      by_cases ho : o' = o
      · subst ho; rw [getRq_updRq_same w o' f r hr] at ho'; cases ho'
      · rw [getRq_updRq_other w o o' f ho, hr] at ho'; cases ho'

/-- **taking a reference** for the running code -/
theorem newrqref_inv (w : World) (fl : Nat → Nat) (o : Nat) (h : Inv w fl) (hl : (getRq w o).isSome) :
    Inv (newrqref w o) (fun x => fl x + one o x) := by
  unfold newrqref
  obtain ⟨r, hr⟩ := Option.isSome_iff_exists.mp hl
  refine ⟨?_, ?_, ?_⟩
  · intro o' r' hr'
    rw [holders_updRq]
    by_cases ho : o' = o
    · subst ho
      rw [getRq_updRq_same w o' _ r hr] at hr'
      cases hr'
      simp only [one, if_true]
      have := h.refs o' r hr
      omega
    · rw [getRq_updRq_other w o o' _ ho] at hr'
      simp only [one, ho, if_false, Nat.add_zero]
      exact h.refs o' r' hr'
  · intro o' r' hr'
    by_cases ho : o' = o
    · subst ho
      rw [getRq_updRq_same w o' _ r hr] at hr'
      cases hr'
      have := h.pos o' r hr
      simp only; omega
    · rw [getRq_updRq_other w o o' _ ho] at hr'; exact h.pos o' r' hr'
  · intro o' ho'
    rw [holders_updRq]
    by_cases ho : o' = o
    · subst ho; rw [getRq_updRq_same w o' _ r hr] at ho'; cases ho'
    · rw [getRq_updRq_other w o o' _ ho] at ho'
      simp only [one, ho, if_false, Nat.add_zero]
      exact h.dead o' ho'

/-- moving references between the running code and the tables: the heap is untouched and, per object, holders +
    in-flight stays the same -/
theorem inv_move (w w' : World) (fl fl' : Nat → Nat) (h : Inv w fl)
    (hheap : ∀ o, getRq w' o = getRq w o)
    (hbal : ∀ o, holders w' o + fl' o = holders w o + fl o) : Inv w' fl' := by
  refine ⟨?_, ?_, ?_⟩
  · intro o r hr; rw [hheap] at hr; rw [hbal]; exact h.refs o r hr
  · intro o r hr; rw [hheap] at hr; exact h.pos o r hr
  · intro o ho
    rw [hheap] at ho
    have := h.dead o ho
    have := hbal o
    omega

/-- the running code stores its reference in an empty duplicate-cache entry -/
theorem cacheFill_inv (w : World) (fl : Nat → Nat) (ci i o : Nat) (c : Client) (h : Inv w fl)
    (hc : getCli w ci = some c) (hi : i < c.cache.length) (hempty : c.cache[i] = none) (hfl : 1 ≤ fl o) :
    Inv (updCli w ci fun c => { c with cache := c.cache.set i (some o) }) (fun x => fl x - one o x) := by
  apply inv_move w _ fl _ h (fun o' => getRq_updCli _ _ _ _)
  intro o'
  have := holders_cacheSet w ci i (some o) c o' hc hi
  rw [hempty] at this
  by_cases ho : o' = o
  · subst ho; simp [one] at this ⊢; omega
  · have h1 : ¬ o = o' := fun e => ho e.symm
    simp [one, ho, h1] at this ⊢; omega

/-- a duplicate-cache entry is emptied; the running code now holds that reference -/
theorem cacheClear_inv (w : World) (fl : Nat → Nat) (ci i o : Nat) (c : Client) (h : Inv w fl)
    (hc : getCli w ci = some c) (hi : i < c.cache.length) (hfull : c.cache[i] = some o) :
    Inv (updCli w ci fun c => { c with cache := c.cache.set i none }) (fun x => fl x + one o x) := by
  apply inv_move w _ fl _ h (fun o' => getRq_updCli _ _ _ _)
  intro o'
  have := holders_cacheSet w ci i none c o' hc hi
  rw [hfull] at this
  by_cases ho : o' = o
  · subst ho; simp [one] at this ⊢; omega
  · have h1 : ¬ o = o' := fun e => ho e.symm
    simp [one, ho, h1] at this ⊢; omega

/-- the running code hands its reference to a reply queue -/
theorem qPush_inv (w : World) (fl : Nat → Nat) (ci o : Nat) (c : Client) (h : Inv w fl)
    (hc : getCli w ci = some c) (hfl : 1 ≤ fl o) :
    Inv (updCli w ci fun c => { c with replyq := c.replyq ++ [o] }) (fun x => fl x - one o x) := by
  apply inv_move w _ fl _ h (fun o' => getRq_updCli _ _ _ _)
  intro o'
  have := holders_qPush w ci o c o' hc
  by_cases ho : o' = o
  · subst ho; simp [one] at this ⊢; omega
  · have h1 : ¬ o = o' := fun e => ho e.symm
    simp [one, ho, h1] at this ⊢; omega

/-- the running code stores its reference in a free outstanding slot -/
theorem slotFill_inv (w : World) (fl : Nat → Nat) (si i o : Nat) (s : Server) (sl : Slot) (h : Inv w fl)
    (hs : getSrv w si = some s) (hi : i < s.slots.length) (hempty : s.slots[i].rq = none) (hsl : sl.rq = some o)
    (hfl : 1 ≤ fl o) :
    Inv (updSrv w si fun s => { s with slots := s.slots.set i sl }) (fun x => fl x - one o x) := by
  apply inv_move w _ fl _ h (fun o' => getRq_updSrv _ _ _ _)
  intro o'
  have := holders_slotSet w si i sl s o' hs hi
  rw [hempty, hsl] at this
  by_cases ho : o' = o
  · subst ho; simp [one] at this ⊢; omega
  · have h1 : ¬ o = o' := fun e => ho e.symm
    simp [one, ho, h1] at this ⊢; omega

/-- the same for any update function that writes exactly that slot of this server -/
theorem slotFill_inv' (w : World) (fl : Nat → Nat) (si i o : Nat) (s : Server) (sl : Slot) (f : Server → Server) (h : Inv w fl)
    (hs : getSrv w si = some s) (hi : i < s.slots.length) (hempty : s.slots[i].rq = none) (hsl : sl.rq = some o)
    (hf : (f s).slots = s.slots.set i sl) (hfl : 1 ≤ fl o) :
    Inv (updSrv w si f) (fun x => fl x - one o x) := by
  apply inv_move w _ fl _ h (fun o' => getRq_updSrv _ _ _ _)
  intro o'
  have := holders_slotSet' w si i sl s f o' hs hi hf
  rw [hempty, hsl] at this
  by_cases ho : o' = o
  · subst ho; simp [one] at this ⊢; omega
  · have h1 : ¬ o = o' := fun e => ho e.symm
    simp [one, ho, h1] at this ⊢; omega

/-- an outstanding slot is cleared; the running code now holds that reference -/
theorem slotClear_inv (w : World) (fl : Nat → Nat) (si i o : Nat) (s : Server) (sl : Slot) (h : Inv w fl)
    (hs : getSrv w si = some s) (hi : i < s.slots.length) (hfull : s.slots[i].rq = some o) (hsl : sl.rq = none) :
    Inv (updSrv w si fun s => { s with slots := s.slots.set i sl }) (fun x => fl x + one o x) := by
  apply inv_move w _ fl _ h (fun o' => getRq_updSrv _ _ _ _)
  intro o'
  have := holders_slotSet w si i sl s o' hs hi
  rw [hfull, hsl] at this
  by_cases ho : o' = o
  · subst ho; simp [one] at this ⊢; omega
  · have h1 : ¬ o = o' := fun e => ho e.symm
    simp [one, ho, h1] at this ⊢; omega

/-- server bookkeeping that leaves the slots alone -/
theorem updSrv_noslots_inv (w : World) (fl : Nat → Nat) (si : Nat) (f : Server → Server) (hf : ∀ s, (f s).slots = s.slots)
    (h : Inv w fl) : Inv (updSrv w si f) fl :=
  inv_move w _ fl fl h (fun o => getRq_updSrv _ _ _ _) (fun o => by rw [holders_updSrv_noslots w si f hf])

/-! ### operations built from the primitives -/

theorem freerq_updSrv_comm (w : World) (si : Nat) (f : Server → Server) (o : Nat) :
    freerq (updSrv w si f) o = updSrv (freerq w o) si f := by
  unfold freerq
  rw [getRq_updSrv]
  cases hr : getRq w o with
  | none => rfl
  | some r =>
    simp only
    split
    · unfold updSrv
      cases hs : w.servers[si]? with
      | none => simp [hs]
      | some s => simp [hs, setSrv]
    · unfold updSrv setRq
      cases hs : w.servers[si]? with
      | none => simp [hs]
      | some s => simp [hs, setSrv]

theorem updRq_updSrv_comm (w : World) (si : Nat) (f : Server → Server) (o : Nat) (g : Rq → Rq) :
    updRq (updSrv w si f) o g = updSrv (updRq w o g) si f := by
  unfold updSrv updRq
  cases hs : w.servers[si]? with
  | none => simp [hs]
  | some s => simp [hs, setSrv]

/-- **releasing an outstanding slot** (`freerqoutdata`): the slot's reference is dropped, exactly once -/
theorem freerqoutdata_inv (w : World) (fl : Nat → Nat) (si i : Nat) (h : Inv w fl) : Inv (freerqoutdata w si i) fl := by
  unfold freerqoutdata
  cases hs : getSrv w si with
  | none => exact h
  | some s =>
    simp only
    by_cases hi : i < s.slots.length
    · cases hsl : (slotOf s i).rq with
      | none =>
        simp only
        -- nothing to release: clearing an empty slot moves no reference
        apply inv_move w _ fl fl h (fun o => getRq_updSrv _ _ _ _)
        intro o
        have := holders_slotSet w si i {} s o hs hi
        have hrq : s.slots[i].rq = none := by
          unfold slotOf at hsl; rw [List.getD_eq_getElem?_getD, List.getElem?_eq_getElem hi] at hsl; exact hsl
        rw [hrq] at this
        simp at this
        omega
      | some o =>
        simp only
        have hrq : s.slots[i].rq = some o := by
          unfold slotOf at hsl; rw [List.getD_eq_getElem?_getD, List.getElem?_eq_getElem hi] at hsl; exact hsl
        rw [← freerq_updSrv_comm, ← updRq_updSrv_comm]
        have h1 := slotClear_inv w fl si i o s {} h hs hi hrq rfl
        have h2 := updRq_inv _ _ o (fun r => { r with buf := none, to := none }) (fun _ => rfl) h1
        have h3 := freerq_inv _ _ o h2 (by simp [one])
        exact inv_congr_fl h3 (fun x => by simp only [one]; split <;> omega)
    · -- no such slot: nothing is referenced, nothing changes
      have hnone : (slotOf s i).rq = none := by
        unfold slotOf; rw [List.getD_eq_getElem?_getD, List.getElem?_eq_none (by omega)]; rfl
      simp only [hnone]
      apply inv_move w _ fl fl h (fun o => getRq_updSrv _ _ _ _)
      intro o
      have hh := holders_updSrv w si (fun s => { s with slots := s.slots.set i {} }) s o hs
      have e : srvRefs o ((fun s : Server => { s with slots := s.slots.set i {} }) s) = srvRefs o s := by
        simp only [srvRefs, List.set_eq_of_length_le (by omega : s.slots.length ≤ i)]
      rw [e] at hh
      omega

theorem getCli_freerq (w : World) (o ci : Nat) : getCli (freerq w o) ci = getCli w ci := by
  unfold freerq
  cases getRq w o with
  | none => rfl
  | some r => simp only; split <;> rfl

theorem getCli_freerqoutdata (w : World) (si j ci : Nat) : getCli (freerqoutdata w si j) ci = getCli w ci := by
  unfold freerqoutdata
  cases getSrv w si with
  | none => rfl
  | some s =>
    simp only
    rw [getCli_updSrv]
    cases (slotOf s j).rq with
    | none => rfl
    | some o => simp only; rw [getCli_freerq]; rfl

/-- **dropping a duplicate-cache entry** (`removeclientrq`): the outstanding copy, if it is still this request's,
    is released, the entry is emptied, and the cache's reference is dropped — each exactly once -/
theorem removeclientrq_inv (w : World) (fl : Nat → Nat) (ci i : Nat) (h : Inv w fl) : Inv (removeclientrq w ci i) fl := by
  unfold removeclientrq
  cases hc : getCli w ci with
  | none => exact h
  | some c =>
    simp only
    cases he : c.cache.getD i none with
    | none => exact h
    | some o =>
      simp only
      have hi : i < c.cache.length := by
        rcases Nat.lt_or_ge i c.cache.length with hlt | hge
        · exact hlt
        · rw [List.getD_eq_getElem?_getD, List.getElem?_eq_none hge] at he; cases he
      have hfull : c.cache[i] = some o := by
        rw [List.getD_eq_getElem?_getD, List.getElem?_eq_getElem hi] at he; exact he
      have hinv1 : Inv (cancelOutstanding w o) fl ∧ getCli (cancelOutstanding w o) ci = some c := by
        unfold cancelOutstanding
        cases getRq w o with
        | none => exact ⟨h, hc⟩
        | some r =>
          simp only
          cases r.to with
          | none => exact ⟨h, hc⟩
          | some si =>
            simp only
            cases getSrv w si with
            | none => exact ⟨h, hc⟩
            | some s =>
              simp only
              split
              · exact ⟨freerqoutdata_inv w fl si r.newid h, by rw [getCli_freerqoutdata]; exact hc⟩
              · exact ⟨h, hc⟩
      have h2 := cacheClear_inv (cancelOutstanding w o) fl ci i o c hinv1.1 hinv1.2 hi hfull
      have h3 := freerq_inv _ _ o h2 (by simp [one])
      exact inv_congr_fl h3 (fun x => by simp only [one]; split <;> omega)

/-- folding an invariant-preserving step over a list -/
theorem foldl_inv {α} (step : World → α → World) (fl : Nat → Nat) (hstep : ∀ w a, Inv w fl → Inv (step w a) fl)
    (l : List α) (w : World) (h : Inv w fl) : Inv (l.foldl step w) fl := by
  induction l generalizing w with
  | nil => exact h
  | cons a t ih => exact ih _ (hstep w a h)

/-- number of times `x` occurs in a reply queue -/
def qcount (q : List Nat) (x : Nat) : Nat := (q.filter (· == x)).length

/-- emptying a reply queue hands all its references to the running code -/
theorem qClear_inv (w : World) (fl : Nat → Nat) (ci : Nat) (c : Client) (f : Client → Client)
    (hf : ∀ c, (f c).cache = c.cache ∧ (f c).replyq = []) (h : Inv w fl) (hc : getCli w ci = some c) :
    Inv (updCli w ci f) (fun x => fl x + qcount c.replyq x) := by
  apply inv_move w _ fl _ h (fun o' => getRq_updCli _ _ _ _)
  intro o
  have := holders_updCli w ci f c o hc
  simp only [cliRefs, (hf c).1, (hf c).2, List.filter_nil, List.length_nil, Nat.add_zero] at this
  simp only [qcount]
  omega

/-- the running code drops, one by one, the references it took from a queue -/
theorem foldFree_inv (q : List Nat) (w : World) (fl : Nat → Nat) (h : Inv w (fun x => fl x + qcount q x)) :
    Inv (q.foldl freerq w) fl := by
  induction q generalizing w with
  | nil => exact inv_congr_fl h (fun x => by simp [qcount])
  | cons a t ih =>
    simp only [List.foldl_cons]
    apply ih
    have h1 := freerq_inv w _ a h (by simp [qcount]; omega)
    refine inv_congr_fl h1 (fun x => ?_)
    simp only [qcount, one, List.filter_cons]
    by_cases hx : a = x
    · subst hx; simp
    · have : (a == x) = false := by simpa using hx
      have hx' : ¬ x = a := fun e => hx e.symm
      simp [this, hx']

/-- **handing replies to the transport** (`popReplies`, the server writer's loop): every queued reference is dropped exactly once -/
theorem popReplies_inv (w : World) (fl : Nat → Nat) (ci : Nat) (h : Inv w fl) : Inv (popReplies w ci).1 fl := by
  unfold popReplies
  cases hc : getCli w ci with
  | none => exact h
  | some c =>
    simp only
    exact foldFree_inv c.replyq _ fl (qClear_inv w fl ci c _ (fun _ => ⟨rfl, rfl⟩) h hc)

theorem freerq_updCli_comm (w : World) (ci : Nat) (f : Client → Client) (o : Nat) :
    freerq (updCli w ci f) o = updCli (freerq w o) ci f := by
  unfold freerq
  rw [getRq_updCli]
  cases hr : getRq w o with
  | none => rfl
  | some r =>
    simp only
    split
    · unfold updCli
      cases hs : w.clients[ci]? with
      | none => simp [hs]
      | some s => simp [hs]
    · unfold updCli setRq
      cases hs : w.clients[ci]? with
      | none => simp [hs]
      | some s => simp [hs]

theorem foldFree_updCli_comm (q : List Nat) (w : World) (ci : Nat) (f : Client → Client) :
    q.foldl freerq (updCli w ci f) = updCli (q.foldl freerq w) ci f := by
  induction q generalizing w with
  | nil => rfl
  | cons a t ih => simp only [List.foldl_cons]; rw [freerq_updCli_comm, ih]

/-- **client disconnect** (`removeclient`): every duplicate-cache entry and every queued reply of the client is
    released exactly once; the balance of every other object is untouched -/
theorem removeclient_inv (w : World) (fl : Nat → Nat) (ci : Nat) (h : Inv w fl) : Inv (removeclient w ci) fl := by
  unfold removeclient
  have h1 : Inv ((List.range 256).foldl (fun w i => removeclientrq w ci i) w) fl :=
    foldl_inv _ fl (fun w i hw => removeclientrq_inv w fl ci i hw) _ w h
  generalize (List.range 256).foldl (fun w i => removeclientrq w ci i) w = w1 at h1
  simp only
  cases hc : getCli w1 ci with
  | none => exact h1
  | some c =>
    simp only
    rw [← foldFree_updCli_comm]
    exact foldFree_inv c.replyq _ fl (qClear_inv w1 fl ci c _ (fun _ => ⟨rfl, rfl⟩) h1 hc)

theorem getCli_cancelOutstanding (w : World) (o ci : Nat) : getCli (cancelOutstanding w o) ci = getCli w ci := by
  unfold cancelOutstanding
  cases getRq w o with
  | none => rfl
  | some r =>
    simp only
    cases r.to with
    | none => rfl
    | some si =>
      simp only
      cases getSrv w si with
      | none => rfl
      | some s =>
        simp only
        split
        · exact getCli_freerqoutdata _ _ _ _
        · rfl

/-- what `removeclientrq` does to the client's own tables: entry `i` is empty afterwards, nothing else changes -/
theorem getCli_removeclientrq (w : World) (ci i : Nat) (c : Client) (hc : getCli w ci = some c) :
    ∃ c', getCli (removeclientrq w ci i) ci = some c' ∧ c'.replyq = c.replyq ∧ c'.cache.length = c.cache.length ∧
      c'.cache.getD i none = none ∧ ∀ j, c.cache.getD j none = none → c'.cache.getD j none = none := by
  unfold removeclientrq
  rw [hc]
  simp only
  cases he : c.cache.getD i none with
  | none => exact ⟨c, hc, rfl, rfl, he, fun j hj => hj⟩
  | some o =>
    simp only
    refine ⟨{ c with cache := c.cache.set i none }, ?_, rfl, by simp, ?_, ?_⟩
    · rw [getCli_freerq]
      exact getCli_updCli_same _ ci _ c (by rw [getCli_cancelOutstanding]; exact hc)
    · simp only [List.getD_eq_getElem?_getD, List.getElem?_set]
      by_cases hil : i < c.cache.length
      · simp [hil]
      · simp [hil]
    · intro j hj
      simp only [List.getD_eq_getElem?_getD, List.getElem?_set] at hj ⊢
      split
      · split <;> simp
      · exact hj

/-- **C17 (nothing kept for a client that is gone).** After `removeclient` the client's reply queue is empty
    and its duplicate cache holds no request -/
theorem removeclient_clears (w : World) (ci : Nat) (c : Client) (hc : getCli w ci = some c) (hlen : c.cache.length ≤ 256) :
    ∃ c', getCli (removeclient w ci) ci = some c' ∧ c'.replyq = [] ∧ ∀ j, c'.cache.getD j none = none := by
  unfold removeclient
  -- after the first k entries have been visited they are empty
  have key : ∀ (k : Nat) (w0 : World) (c0 : Client), getCli w0 ci = some c0 →
      ∃ c1, getCli ((List.range k).foldl (fun w i => removeclientrq w ci i) w0) ci = some c1 ∧
        c1.cache.length = c0.cache.length ∧
        (∀ j, j < k → c1.cache.getD j none = none) ∧ (∀ j, c0.cache.getD j none = none → c1.cache.getD j none = none) := by
    intro k
    induction k with
    | zero => intro w0 c0 h0; exact ⟨c0, by simpa using h0, rfl, fun j hj => by omega, fun j hj => hj⟩
    | succ k ih =>
      intro w0 c0 h0
      obtain ⟨c1, h1, hl1, hdone, hkeep⟩ := ih w0 c0 h0
      rw [List.range_succ, List.foldl_append]
      simp only [List.foldl_cons, List.foldl_nil]
      obtain ⟨c2, h2, _, hl2, hi2, hk2⟩ := getCli_removeclientrq _ ci k c1 h1
      refine ⟨c2, h2, by rw [hl2, hl1], ?_, fun j hj => hk2 j (hkeep j hj)⟩
      intro j hj
      by_cases hjk : j = k
      · subst hjk; exact hi2
      · exact hk2 j (hdone j (by omega))
  obtain ⟨c1, h1, hl1, hdone, _⟩ := key 256 w c hc
  simp only
  rw [h1]
  simp only
  refine ⟨{ c1 with replyq := [], alive := false }, ?_, rfl, ?_⟩
  · apply getCli_updCli_same
    have : ∀ (q : List Nat) (w' : World), getCli (q.foldl freerq w') ci = getCli w' ci := by
      intro q
      induction q with
      | nil => intro w'; rfl
      | cons a t iht => intro w'; simp only [List.foldl_cons]; rw [iht, getCli_freerq]
    rw [this]; exact h1
  · intro j
    by_cases hj : j < 256
    · exact hdone j hj
    · simp only [List.getD_eq_getElem?_getD]
      rw [List.getElem?_eq_none (by omega)]
      rfl

theorem getRq_setRq_same' (w : World) (o : Nat) (r r' : Rq) (h : getRq w o = some r) : getRq (setRq w o r') o = some r' :=
  getRq_setRq_same w o r r' h

/-- replacing a request's fields other than its count keeps the invariant -/
theorem setRq_inv (w : World) (fl : Nat → Nat) (o : Nat) (r r' : Rq) (hr : getRq w o = some r) (hrefs : r'.refs = r.refs)
    (h : Inv w fl) : Inv (setRq w o r') fl := by
  refine ⟨?_, ?_, ?_⟩
  · intro o' x hx
    rw [holders_setRq]
    by_cases ho : o' = o
    · subst ho
      rw [getRq_setRq_same w o' r r' hr] at hx
      cases hx
      rw [hrefs]; exact h.refs o' r hr
    · rw [getRq_setRq_other w o o' r' ho] at hx; exact h.refs o' x hx
  · intro o' x hx
    by_cases ho : o' = o
    · subst ho
      rw [getRq_setRq_same w o' r r' hr] at hx
      cases hx
      rw [hrefs]; exact h.pos o' r hr
    · rw [getRq_setRq_other w o o' r' ho] at hx; exact h.pos o' x hx
  · intro o' ho'
    rw [holders_setRq]
    by_cases ho : o' = o
    · subst ho; rw [getRq_setRq_same w o' r r' hr] at ho'; cases ho'
    · rw [getRq_setRq_other w o o' r' ho] at ho'; exact h.dead o' ho'

/-- **queueing a reply** (`sendreply`): the caller's reference ends up in the client's reply queue, or is dropped
    when the reply cannot be built — exactly once either way -/
theorem sendreply_inv (w : World) (fl : Nat → Nat) (o : Nat) (h : Inv w fl) (hfl : 1 ≤ fl o) :
    Inv (sendreply w o) (fun x => fl x - one o x) := by
  unfold sendreply
  cases hr : getRq w o with
  | none => have := (h.dead o hr).2; omega
  | some r =>
    simp only
    cases hfrm : r.frm with
    | none => exact freerq_inv w fl o h hfl
    | some ci =>
      simp only
      have h1 := setRq_inv w fl o r { r with replybuf := replyBytes w r (secretOfCli w ci), msg := none } hr rfl h
      rw [hfrm] at h1
      cases hb : replyBytes w r (secretOfCli w ci) with
      | none =>
        simp only [hb] at h1 ⊢
        exact freerq_inv _ fl o h1 hfl
      | some b =>
        simp only [hb] at h1 ⊢
        split
        · rename_i hsome
          obtain ⟨c, hc⟩ := Option.isSome_iff_exists.mp hsome
          exact qPush_inv _ fl ci o c h1 hc hfl
        · exact freerq_inv _ fl o h1 hfl

/-- table sizes: 256 outstanding slots per server, 256 duplicate-cache entries per client -/
structure WF (w : World) : Prop where
  slots : ∀ si s, getSrv w si = some s → s.slots.length = 256
  cache : ∀ ci c, getCli w ci = some c → c.cache.length = 256
  nextid : ∀ si s, getSrv w si = some s → s.nextid ≤ 256

theorem WF_heap (w w' : World) (hs : w'.servers = w.servers) (hc : w'.clients = w.clients) (h : WF w) : WF w' :=
  ⟨fun si s hh => h.slots si s (by unfold getSrv at *; rw [← hs]; exact hh),
   fun ci c hh => h.cache ci c (by unfold getCli at *; rw [← hc]; exact hh),
   fun si s hh => h.nextid si s (by unfold getSrv at *; rw [← hs]; exact hh)⟩

theorem WF_setRq (w : World) (o : Nat) (r : Rq) (h : WF w) : WF (setRq w o r) := WF_heap w _ rfl rfl h
theorem WF_updRq (w : World) (o : Nat) (f : Rq → Rq) (h : WF w) : WF (updRq w o f) := WF_heap w _ rfl rfl h

theorem WF_freerq (w : World) (o : Nat) (h : WF w) : WF (freerq w o) := by
  unfold freerq
  cases getRq w o with
  | none => exact h
  | some r => simp only; split <;> exact WF_heap w _ rfl rfl h

theorem getSrv_updSrv_other (w : World) (si sj : Nat) (f : Server → Server) (hne : sj ≠ si) :
    getSrv (updSrv w si f) sj = getSrv w sj := by
  unfold getSrv updSrv
  cases w.servers[si]? with
  | none => rfl
  | some s =>
    have : ¬ si = sj := fun h => hne h.symm
    simp [setSrv, List.getElem?_set, this]

theorem WF_updSrv (w : World) (si : Nat) (f : Server → Server) (hf : ∀ s, (f s).slots.length = s.slots.length)
    (hn : ∀ s, s.nextid ≤ 256 → (f s).nextid ≤ 256) (h : WF w) :
    WF (updSrv w si f) := by
  have key : ∀ sj s', getSrv (updSrv w si f) sj = some s' → ∃ s, getSrv w sj = some s ∧ s'.slots.length = s.slots.length ∧ (s.nextid ≤ 256 → s'.nextid ≤ 256) := by
    intro sj s' hh
    by_cases hj : sj = si
    · subst hj
      cases hs : getSrv w sj with
      | none =>
        have : updSrv w sj f = w := by unfold updSrv; unfold getSrv at hs; rw [hs]
        rw [this, hs] at hh; cases hh
      | some s =>
        rw [getSrv_updSrv_same w sj f s hs] at hh
        cases hh
        exact ⟨s, rfl, hf s, hn s⟩
    · rw [getSrv_updSrv_other w si sj f hj] at hh; exact ⟨s', hh, rfl, id⟩
  refine ⟨?_, fun ci c hh => h.cache ci c (by rw [getCli_updSrv] at hh; exact hh), ?_⟩
  · intro sj s' hh
    obtain ⟨s, hs, hl, _⟩ := key sj s' hh
    rw [hl]; exact h.slots sj s hs
  · intro sj s' hh
    obtain ⟨s, hs, _, hnx⟩ := key sj s' hh
    exact hnx (h.nextid sj s hs)

/-- `rmclientrq(rq, id)`: the duplicate-cache entry `id` of the request's client is emptied and its reference dropped -/
theorem rmclientrq_inv (w : World) (fl : Nat → Nat) (o id : Nat) (h : Inv w fl) : Inv (rmclientrq w o id) fl := by
  unfold rmclientrq
  cases hr : getRq w o with
  | none => exact h
  | some r =>
    simp only
    cases hf : r.frm with
    | none => exact h
    | some ci =>
      simp only
      cases hc : getCli w ci with
      | none => exact h
      | some c =>
        simp only
        cases he : c.cache.getD id none with
        | none => exact h
        | some o' =>
          simp only
          have hi : id < c.cache.length := by
            rcases Nat.lt_or_ge id c.cache.length with hlt | hge
            · exact hlt
            · rw [List.getD_eq_getElem?_getD, List.getElem?_eq_none hge] at he; cases he
          have hfull : c.cache[id] = some o' := by
            rw [List.getD_eq_getElem?_getD, List.getElem?_eq_getElem hi] at he; exact he
          have h1 := cacheClear_inv w fl ci id o' c h hc hi hfull
          have h2 := updRq_inv _ _ o (fun r => { r with frm := none }) (fun _ => rfl) h1
          have h3 := freerq_inv _ _ o' h2 (by simp [one])
          exact inv_congr_fl h3 (fun x => by simp only [one]; split <;> omega)

/-- giving up on a request inside `sendrq` (no server, no free identifier): forgotten and the caller's reference dropped -/
theorem sendrqFail_inv (w : World) (fl : Nat → Nat) (o id : Nat) (h : Inv w fl) (hfl : 1 ≤ fl o) :
    Inv (sendrqFail w o id) (fun x => fl x - one o x) := by
  unfold sendrqFail
  have h1 : Inv (match (getRq w o).bind (·.frm) with | some _ => rmclientrq w o id | none => w) fl := by
    cases (getRq w o).bind (·.frm) with
    | none => exact h
    | some _ => exact rmclientrq_inv w fl o id h
  exact freerq_inv _ fl o h1 hfl

/-- one attempt to place a request in slot `id`: on success the caller's reference moves into the slot, otherwise
    nothing moves -/
theorem internalSendrq_inv (w : World) (fl : Nat → Nat) (si id o : Nat) (h : Inv w fl) (wf : WF w) (hid : id < 256) (hfl : 1 ≤ fl o) :
    (if (internalSendrq w si id o).2 then Inv (internalSendrq w si id o).1 (fun x => fl x - one o x)
     else Inv (internalSendrq w si id o).1 fl) := by
  unfold internalSendrq
  cases hs : getSrv w si with
  | none => simp only; exact h
  | some s =>
    cases hr : getRq w o with
    | none => simp only; exact h
    | some r =>
      simp only
      by_cases hocc : (slotOf s id).rq.isSome = true
      · simp only [hocc, if_true]; exact h
      · simp only [hocc]
        cases hm : r.msg with
        | none => simp only; exact h
        | some m =>
          simp only
          cases hser : Radmsg.serialize w.H { m with id := UInt8.ofNat id } (some s.conf.secret) with
          | ok b a' =>
            simp only [if_true]
            have hi : id < s.slots.length := by rw [wf.slots si s hs]; exact hid
            have h1 := setRq_inv w fl o r { r with newid := id, msg := some { { m with id := UInt8.ofNat id } with auth := a' }, buf := some b } hr rfl h
            have hempty : s.slots[id].rq = none := by
              have : (slotOf s id).rq = none := by
                cases hx : (slotOf s id).rq with
                | none => rfl
                | some x => simp [hx] at hocc
              unfold slotOf at this
              rw [List.getD_eq_getElem?_getD, List.getElem?_eq_getElem hi] at this; exact this
            exact slotFill_inv' _ fl si id o s { (slotOf s id) with rq := some o } _ h1 (by unfold getSrv setRq; exact hs) hi hempty rfl rfl hfl
          | fail => simp only; exact setRq_inv w fl o r _ hr rfl h
          | fault => simp only; exact setRq_inv w fl o r _ hr rfl h

theorem WF_internalSendrq (w : World) (si id o : Nat) (wf : WF w) : WF (internalSendrq w si id o).1 := by
  unfold internalSendrq
  cases getSrv w si with
  | none => exact wf
  | some s =>
    cases getRq w o with
    | none => exact wf
    | some r =>
      simp only
      split
      · exact wf
      · cases r.msg with
        | none => exact wf
        | some m =>
          simp only
          cases Radmsg.serialize w.H { m with id := UInt8.ofNat id } (some s.conf.secret) with
          | ok b a' => exact WF_updSrv _ si _ (fun s => by simp) (fun s hs => hs) (WF_setRq w o _ wf)
          | fail => exact WF_setRq w o _ wf
          | fault => exact WF_setRq w o _ wf

/-- the scan over identifiers: when it finds a free one the caller's reference has moved into that slot,
    otherwise nothing moved -/
theorem scanSlots_inv (fuel : Nat) (w : World) (fl : Nat → Nat) (si o i upto : Nat) (h : Inv w fl) (wf : WF w)
    (hup : upto ≤ 256) (hfl : 1 ≤ fl o) :
    WF (scanSlots w si o fuel i upto).1 ∧
    (match (scanSlots w si o fuel i upto).2 with
     | some _ => Inv (scanSlots w si o fuel i upto).1 (fun x => fl x - one o x)
     | none => Inv (scanSlots w si o fuel i upto).1 fl) := by
  induction fuel generalizing w i with
  | zero => exact ⟨wf, h⟩
  | succ fuel ih =>
    unfold scanSlots
    by_cases hge : i ≥ upto
    · simp only [hge, if_true]; exact ⟨wf, h⟩
    · simp only [hge, if_false]
      have hstep := internalSendrq_inv w fl si i o h wf (by omega) hfl
      have hwf := WF_internalSendrq w si i o wf
      cases hok : (internalSendrq w si i o).2 with
      | true =>
        simp only [hok, if_true] at hstep ⊢
        exact ⟨hwf, hstep⟩
      | false =>
        simp only [hok] at hstep ⊢
        exact ih _ (i + 1) hstep hwf

/-- what `sendrqPlace` makes of a scan result -/
def scanDone (si : Nat) (s : Server) (r : World × Option Nat) : World × Bool :=
  match r with
  | (w2, some i) => (updSrv w2 si fun s' => { s' with nextid := if i ≥ startId s then i + 1 else s'.nextid }, true)
  | (w2, none) => (w2, false)

/-- the part of `sendrqPlace` after the first scan, as a function of that scan's result -/
def placeTail (si o : Nat) (s : Server) (cur : Nat) (r1 : World × Option Nat) : World × Bool :=
  match r1 with
  | (w1, some i) => (updSrv w1 si fun s' => { s' with nextid := if i ≥ startId s then i + 1 else s'.nextid }, true)
  | (w1, none) => scanDone si s (scanSlots w1 si o 256 (startId s) cur)

theorem sendrqPlace_eq (w : World) (si o : Nat) (s : Server) (isProbe : Bool) :
    sendrqPlace w si o s isProbe =
      if startId s ≠ 0 ∧ isProbe then internalSendrq w si 0 o
      else placeTail si o s (if s.nextid = 0 then startId s else s.nextid)
        (scanSlots (updSrv w si fun s' => { s' with nextid := if s.nextid = 0 then startId s else s.nextid }) si o 256
          (if s.nextid = 0 then startId s else s.nextid) 256) := by
  unfold sendrqPlace placeTail scanDone
  rfl

theorem scanDone_inv (fl : Nat → Nat) (si o : Nat) (s : Server) (r : World × Option Nat)
    (h1 : WF r.1 ∧ (match r.2 with | some _ => Inv r.1 (fun x => fl x - one o x) | none => Inv r.1 fl)) :
    (if (scanDone si s r).2 then Inv (scanDone si s r).1 (fun x => fl x - one o x) else Inv (scanDone si s r).1 fl) := by
  obtain ⟨w2, f2⟩ := r
  cases f2 with
  | some i =>
    simp only [scanDone, if_true] at h1 ⊢
    exact updSrv_noslots_inv w2 _ si _ (fun _ => rfl) h1.2
  | none =>
    simp only [scanDone] at h1 ⊢
    exact h1.2

theorem placeTail_inv (fl : Nat → Nat) (si o : Nat) (s : Server) (cur : Nat) (r1 : World × Option Nat) (hcur : cur ≤ 256)
    (hfl : 1 ≤ fl o)
    (h1 : WF r1.1 ∧ (match r1.2 with | some _ => Inv r1.1 (fun x => fl x - one o x) | none => Inv r1.1 fl)) :
    (if (placeTail si o s cur r1).2 then Inv (placeTail si o s cur r1).1 (fun x => fl x - one o x)
     else Inv (placeTail si o s cur r1).1 fl) := by
  obtain ⟨w1, f1⟩ := r1
  cases f1 with
  | some i =>
    simp only [placeTail, if_true] at h1 ⊢
    exact updSrv_noslots_inv w1 _ si _ (fun _ => rfl) h1.2
  | none =>
    simp only at h1
    simp only [placeTail]
    exact scanDone_inv fl si o s _ (scanSlots_inv 256 w1 fl si o (startId s) cur h1.2 h1.1 hcur hfl)

theorem sendrqPlace_inv (w : World) (fl : Nat → Nat) (si o : Nat) (s : Server) (isProbe : Bool) (h : Inv w fl) (wf : WF w)
    (hnext : s.nextid ≤ 256) (hfl : 1 ≤ fl o) :
    (if (sendrqPlace w si o s isProbe).2 then Inv (sendrqPlace w si o s isProbe).1 (fun x => fl x - one o x)
     else Inv (sendrqPlace w si o s isProbe).1 fl) := by
  rw [sendrqPlace_eq]
  by_cases hp : startId s ≠ 0 ∧ isProbe = true
  · rw [if_pos hp]
    exact internalSendrq_inv w fl si 0 o h wf (by omega) hfl
  · rw [if_neg hp]
    have hcur : (if s.nextid = 0 then startId s else s.nextid) ≤ 256 := by
      split
      · unfold startId; split <;> omega
      · exact hnext
    have h0 : Inv (updSrv w si fun s' => { s' with nextid := if s.nextid = 0 then startId s else s.nextid }) fl :=
      updSrv_noslots_inv w fl si _ (fun _ => rfl) h
    have wf0 : WF (updSrv w si fun s' => { s' with nextid := if s.nextid = 0 then startId s else s.nextid }) :=
      WF_updSrv w si _ (fun _ => rfl) (fun _ _ => hcur) wf
    have s1 := scanSlots_inv 256 _ fl si o (if s.nextid = 0 then startId s else s.nextid) 256 h0 wf0 (by omega) hfl
    exact placeTail_inv fl si o s _ _ hcur hfl s1

/-- **queueing a request for a server** (`sendrq`): the caller's reference ends up in exactly one outstanding slot, or —
    no server, no free identifier, packet cannot be built — the request is forgotten and the reference dropped -/
theorem sendrq_inv (w : World) (fl : Nat → Nat) (o : Nat) (h : Inv w fl) (wf : WF w) (hfl : 1 ≤ fl o) :
    Inv (sendrq w o) (fun x => fl x - one o x) := by
  unfold sendrq
  cases hr : getRq w o with
  | none => have := (h.dead o hr).2; omega
  | some r =>
    simp only
    cases hto : r.to with
    | none => exact sendrqFail_inv w fl o _ h hfl
    | some si =>
      simp only
      cases hs : getSrv w si with
      | none => exact sendrqFail_inv w fl o _ h hfl
      | some s =>
        simp only
        have hp := sendrqPlace_inv w fl si o s (match r.msg with | some m => decide (m.code = 12) | none => false) h wf (wf.nextid si s hs) hfl
        generalize sendrqPlace w si o s (match r.msg with | some m => decide (m.code = 12) | none => false) = res at hp
        obtain ⟨w', ok⟩ := res
        cases ok with
        | true =>
          simp only [if_true] at hp ⊢
          exact updSrv_noslots_inv w' _ si _ (fun _ => rfl) hp
        | false =>
          simp only at hp ⊢
          exact sendrqFail_inv w' fl o _ hp hfl

end Rsp.Props.C17
