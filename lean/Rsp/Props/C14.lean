/-
  Property C14 — peers are identified by source address exactly as configured.
-/
import Rsp.Lemmas.Addr
namespace Rsp.Props.C14
open Rsp Rsp.Addr Rsp.Spec

theorem prefixmatch_unfold (a b : Bytes) (len : Nat) :
    prefixmatch a b len = true ↔
      a.take (len / 8) = b.take (len / 8) ∧
      (len % 8 = 0 ∨ ((a.getD (len / 8) 0 &&& mask.getD (len % 8) 0) == (b.getD (len / 8) 0 &&& mask.getD (len % 8) 0)) = true) := by
  unfold prefixmatch
  by_cases hl : len / 8 = 0
  · simp [hl]
  · by_cases ht : a.take (len / 8) = b.take (len / 8)
    · simp [hl, ht]
    · simp [hl, ht]

/-- **prefixmatch compares exactly the leading `len` bits**, for addresses of any
    (equal) length and every prefix length up to the address width. -/
theorem prefixmatch_iff (a b : Bytes) (len : Nat) (hab : a.length = b.length) (hlen : len ≤ 8 * a.length) :
    prefixmatch a b len = true ↔ ∀ i < len, bitAt a i = bitAt b i := by
  rw [prefixmatch_unfold]
  have hdec : len = 8 * (len / 8) + len % 8 := by omega
  have hr : len % 8 < 8 := Nat.mod_lt _ (by decide)
  have hla : len / 8 ≤ a.length := by omega
  have hlb : len / 8 ≤ b.length := by omega
  rw [take_eq_iff a b _ hla hlb]
  conv => rhs; rw [hdec]
  rw [split_forall (fun i => bitAt a i = bitAt b i) (len / 8) (len % 8) hr]
  have hbytes : (∀ k < len / 8, a.getD k 0 = b.getD k 0) ↔
      (∀ k < len / 8, ∀ j < 8, bitAt a (8 * k + j) = bitAt b (8 * k + j)) := by
    constructor
    · intro h k hk; exact (byte_eq_iff_bits a b k).mp (h k hk)
    · intro h k hk; exact (byte_eq_iff_bits a b k).mpr (h k hk)
  rw [hbytes]
  have hlast : (len % 8 = 0 ∨ ((a.getD (len / 8) 0 &&& mask.getD (len % 8) 0) == (b.getD (len / 8) 0 &&& mask.getD (len % 8) 0)) = true) ↔
      (∀ j < len % 8, bitAt a (8 * (len / 8) + j) = bitAt b (8 * (len / 8) + j)) := by
    rw [masked_eq_iff _ _ _ hr,
        top_bits_iff (len % 8) (by omega) _ (a.getD (len / 8) 0).toNat_lt _ (b.getD (len / 8) 0).toNat_lt]
    constructor
    · intro h j hj
      rw [bitAt_mk a _ j (by omega), bitAt_mk b _ j (by omega)]
      rcases h with h | h
      · omega
      · exact h j hj
    · intro h
      right
      intro j hj
      have := h j hj
      rwa [bitAt_mk a _ j (by omega), bitAt_mk b _ j (by omega)] at this
  rw [hlast]

/-! ### prefixes nest: what the overlapping-entry orders of the property rest on -/

/-- A source that matches an address/len entry matches every shorter prefix of the same address:
    the sources of a /24 are among the sources of the /16 — every width, every pair of lengths. -/
theorem prefixmatch_mono (a b : Bytes) (len len' : Nat) (hab : a.length = b.length) (hlen : len ≤ 8 * a.length)
    (hle : len' ≤ len) (h : prefixmatch a b len = true) : prefixmatch a b len' = true := by
  rw [prefixmatch_iff a b len hab hlen] at h
  rw [prefixmatch_iff a b len' hab (by omega)]
  intro i hi; exact h i (by omega)

/-- every address matches itself at every prefix length -/
theorem prefixmatch_refl (a : Bytes) (len : Nat) (hlen : len ≤ 8 * a.length) : prefixmatch a a len = true := by
  rw [prefixmatch_iff a a len rfl hlen]; intro _ _; rfl

theorem prefixmatch_symm (a b : Bytes) (len : Nat) (hab : a.length = b.length) (hlen : len ≤ 8 * a.length)
    (h : prefixmatch a b len = true) : prefixmatch b a len = true := by
  rw [prefixmatch_iff a b len hab hlen] at h
  rw [prefixmatch_iff b a len hab.symm (by omega)]
  intro i hi; exact (h i hi).symm

/-- two sources inside one address/len entry are inside each other's: an entry denotes a block of addresses,
    whichever of its members the configuration names -/
theorem prefixmatch_trans (a b c : Bytes) (len : Nat) (hab : a.length = b.length) (hbc : b.length = c.length)
    (hlen : len ≤ 8 * a.length) (h1 : prefixmatch a b len = true) (h2 : prefixmatch b c len = true) :
    prefixmatch a c len = true := by
  rw [prefixmatch_iff a b len hab hlen] at h1
  rw [prefixmatch_iff b c len hbc (by omega)] at h2
  rw [prefixmatch_iff a c len (hab.trans hbc) hlen]
  intro i hi; exact (h1 i hi).trans (h2 i hi)

/-- Non-vacuity: 10.1.2.3 is inside 10.1.0.0/16 (hence /9) and outside 10.1.0.0/24. -/
example : prefixmatch [10, 1, 2, 3] [10, 1, 0, 0] 16 = true ∧ prefixmatch [10, 1, 2, 3] [10, 1, 0, 0] 9 = true ∧
    prefixmatch [10, 1, 2, 3] [10, 1, 0, 0] 24 = false := by decide

theorem leadingBitsEq_iff (a b : Bytes) (len : Nat) :
    leadingBitsEq a b len = true ↔ ∀ i < len, bitAt a i = bitAt b i := by
  simp [leadingBitsEq]

/-- well-formed resolved address: 4 octets for IPv4, 16 for IPv6 -/
def wfRes (r : ResAddr) : Prop := r.addr.length = (match r.fam with | .v4 => 4 | .v6 => 16)
def wfSrc (s : Src) : Prop := s.addr.length = (match s.fam with | .v4 => 4 | .v6 => 16)
/-- the configuration parser enforces: no prefix (255), or 0..32 for IPv4 / 0..128 for IPv6 -/
def wfHp (hp : HostPort) : Prop :=
  (∀ r ∈ hp.addrs, wfRes r) ∧ (hp.prefixlen = 255 ∨ ∀ r ∈ hp.addrs, hp.prefixlen ≤ width r.fam)

theorem split_normalise (s : Src) :
    (split s = (some (normalise s).2, none) ∧ (normalise s).1 = .v4) ∨
    (split s = (none, some (normalise s).2) ∧ (normalise s).1 = .v6) := by
  unfold split normalise isV4Mapped v4mappedPrefix
  cases s.fam with
  | v4 => left; simp
  | v6 => by_cases h : (List.take 12 s.addr == [0, 0, 0, 0, 0, 0, 0, 0, 0, 0, 255, 255]) = true <;> simp [h]

theorem normalise_len (s : Src) (hs : wfSrc s) :
    (normalise s).2.length = (match (normalise s).1 with | .v4 => 4 | .v6 => 16) := by
  unfold normalise wfSrc at *
  cases hf : s.fam with
  | v4 => simp [hf] at hs ⊢; exact hs
  | v6 =>
    simp [hf] at hs ⊢
    split <;> simp [hs]

/-- one (host entry, resolved address) test of the C loop equals the spec's "contains" -/
theorem resMatches_eq (hp : HostPort) (cp : Bool) (s : Src) (r : ResAddr)
    (hs : wfSrc s) (hr : wfRes r) (hpl : hp.prefixlen = 255 ∨ hp.prefixlen ≤ width r.fam) :
    resMatches hp.prefixlen 255 cp s r = entryContains hp.prefixlen cp s r := by
  have hnl := normalise_len s hs
  unfold resMatches entryContains
  rcases split_normalise s with ⟨hsp, hf⟩ | ⟨hsp, hf⟩
  · rw [hsp]
    rw [hf] at hnl
    generalize normalise s = p at hsp hf hnl ⊢
    obtain ⟨f, a⟩ := p
    simp only at hf hnl ⊢
    subst hf
    by_cases hw : hp.prefixlen ≥ width r.fam
    · simp only [hw, Option.isSome_some, if_true, true_and, ge_iff_le]
      have : (32 : Nat) ≤ 255 := by decide
      simp only [this, if_true]
      cases hrf : r.fam <;> cases cp <;> by_cases hae : a = r.addr <;> by_cases hpe : r.port = s.port <;> simp [hae, hpe]
    · have hle : hp.prefixlen ≤ 255 := by
        have hwd : width r.fam ≤ 128 := by cases r.fam <;> simp [width]
        rcases hpl with h | h <;> omega
      simp only [hw, false_and, if_false, hle, if_true]
      cases hrf : r.fam with
      | v6 => simp
      | v4 =>
        simp only [hrf, width] at hw hpl
        have hra : r.addr.length = 4 := by unfold wfRes at hr; simpa [hrf] using hr
        have hpm := prefixmatch_iff a r.addr hp.prefixlen (by omega) (by omega)
        have hlb := leadingBitsEq_iff a r.addr hp.prefixlen
        have heq : prefixmatch a r.addr hp.prefixlen = leadingBitsEq a r.addr hp.prefixlen := by
          rw [Bool.eq_iff_iff, hpm, hlb]
        simp [heq]
  · rw [hsp]
    rw [hf] at hnl
    generalize normalise s = p at hsp hf hnl ⊢
    obtain ⟨f, a⟩ := p
    simp only at hf hnl ⊢
    subst hf
    by_cases hw : hp.prefixlen ≥ width r.fam
    · simp only [hw, Option.isSome_none, Bool.false_eq_true, if_false, true_and, ge_iff_le]
      have : (128 : Nat) ≤ 255 := by decide
      simp only [this, if_true]
      cases hrf : r.fam <;> cases cp <;> by_cases hae : a = r.addr <;> by_cases hpe : r.port = s.port <;> simp [hae, hpe]
    · have hle : hp.prefixlen ≤ 255 := by
        have hwd : width r.fam ≤ 128 := by cases r.fam <;> simp [width]
        rcases hpl with h | h <;> omega
      simp only [hw, false_and, if_false, hle, if_true]
      cases hrf : r.fam with
      | v4 => simp
      | v6 =>
        simp only [hrf, width] at hw hpl
        have hra : r.addr.length = 16 := by unfold wfRes at hr; simpa [hrf] using hr
        have hpm := prefixmatch_iff a r.addr hp.prefixlen (by omega) (by omega)
        have hlb := leadingBitsEq_iff a r.addr hp.prefixlen
        have heq : prefixmatch a r.addr hp.prefixlen = leadingBitsEq a r.addr hp.prefixlen := by
          rw [Bool.eq_iff_iff, hpm, hlb]
        simp [heq]

theorem any_congr_mem {α : Type} (l : List α) (f g : α → Bool) (h : ∀ x ∈ l, f x = g x) :
    l.any f = l.any g := by
  induction l with
  | nil => rfl
  | cons a t ih =>
    simp only [List.any_cons, h a (by simp)]
    rw [ih (fun x hx => h x (by simp [hx]))]

/-- **C14 attribution theorem**: for every list of blocks (any length, any
    order of overlapping host / prefix entries) and every source address, the
    block returned is the FIRST block of the requested transport whose host list
    contains the source in the sense of the spec; `none` (= drop) iff there is none. -/
theorem findConf_meets_spec (type : Nat) (s : Src) (confs : List Conf) (serverP : Bool)
    (hs : wfSrc s) (hc : ∀ c ∈ confs, ∀ hp ∈ c.hostports, wfHp hp) :
    findConfOk type s confs serverP (findConf type s confs serverP) = true := by
  unfold findConfOk findConf
  rw [beq_iff_eq]
  induction confs with
  | nil => rfl
  | cons c rest ih =>
    have hrest := ih (fun c' h' => hc c' (by simp [h']))
    simp only [List.findIdx?_cons]
    have hblock : (decide (c.type = type ∧ (addressmatches c.hostports s serverP).isSome = true)) =
        (c.type == type && blockContains c serverP s) := by
      have hbc : (addressmatches c.hostports s serverP).isSome = blockContains c serverP s := by
        unfold addressmatches blockContains
        rw [List.findIdx?_isSome]
        have hh := hc c (by simp)
        apply any_congr_mem
        intro hp hhp
        have hwf := hh hp hhp
        apply any_congr_mem
        intro r hr
        have hpl : hp.prefixlen = 255 ∨ hp.prefixlen ≤ width r.fam := by
          rcases hwf.2 with h | h
          · left; exact h
          · right; exact h r hr
        exact resMatches_eq hp serverP s r hs (hwf.1 r hr) hpl
      rw [hbc]
      by_cases ht : c.type = type <;> simp [ht]
    rw [hblock, hrest]

/-- no matching block ⇒ nothing is returned (the transports then drop the packet / connection) -/
theorem no_block_no_conf (type : Nat) (s : Src) (confs : List Conf) (serverP : Bool)
    (hs : wfSrc s) (hc : ∀ c ∈ confs, ∀ hp ∈ c.hostports, wfHp hp)
    (hnone : ∀ c ∈ confs, (c.type == type && blockContains c serverP s) = false) :
    findConf type s confs serverP = none := by
  have h := findConf_meets_spec type s confs serverP hs hc
  unfold findConfOk at h
  rw [beq_iff_eq] at h
  rw [h, List.findIdx?_eq_none_iff]
  intro c hcm; simp [hnone c hcm]

/-- non-vacuity -/
example : prefixmatch [192,168,1,1] [192,168,1,128] 24 = true := by decide
example : prefixmatch [192,168,1,1] [192,168,1,128] 25 = false := by decide
example : findConf 0 ⟨.v6, [0,0,0,0,0,0,0,0,0,0,255,255,10,0,0,7], 5⟩
    [⟨1, [⟨255, [⟨.v4, [10,0,0,7], 0⟩]⟩]⟩, ⟨0, [⟨8, [⟨.v4, [10,1,1,1], 0⟩]⟩]⟩, ⟨0, [⟨255, [⟨.v4, [10,0,0,7], 0⟩]⟩]⟩] false = some 1 := by decide

end Rsp.Props.C14
