/-
  Property C10 — retransmitted requests are not forwarded twice; answered ones
  get the same reply. Theorems about `addclientrq` (the duplicate cache) for
  EVERY state of the World model.
-/
import Rsp.Lemmas.World
namespace Rsp.Props.C10
open Rsp Rsp.Radmsg Rsp.World

/-- the duplicate interval configured for the client association `ci` -/
def dupOf (w : World) (c : Client) : Nat := (w.cliConfs.getD c.conf { name := [], type := 0, secret := [], dup := 0 }).dup

/-- **An exact retransmission inside the interval is never queued again and, if the
    original was answered, exactly the stored reply bytes are queued once more.**
    For every state: request `o` from association `ci` with the identifier and
    authenticator of cached request `o'`, `now - created(o') < DuplicateInterval`. -/
theorem retransmission_not_forwarded (w : World) (o o' ci : Nat) (rq r : Rq) (c : Client)
    (hrq : getRq w o = some rq) (hfrm : rq.frm = some ci) (hc : getCli w ci = some c)
    (hcache : c.cache.getD rq.rqid.toNat none = some o') (hr : getRq w o' = some r)
    (hauth : rq.rqauth = r.rqauth) (hage : w.now - r.created < dupOf w c) :
    (addclientrq w o).2 = false ∧
    (addclientrq w o).1.servers = w.servers ∧
    (r.replybuf = none → (addclientrq w o).1 = w) ∧
    (∀ b, r.replybuf = some b → r.frm = some ci →
        (getCli (addclientrq w o).1 ci).map (·.replyq) = some (c.replyq ++ [o']) ∧
        ((getRq (addclientrq w o).1 o').bind (·.replybuf)) = some b) := by
  unfold addclientrq
  simp only [hrq, hfrm, hc, hcache, hr]
  have hcond : rq.rqauth = r.rqauth ∧ w.now - r.created < (w.cliConfs.getD c.conf { name := [], type := 0, secret := [], dup := 0 }).dup :=
    ⟨hauth, hage⟩
  simp only [hcond, and_self, if_true]
  refine ⟨trivial, ?_, ?_, ?_⟩
  · split
    · rw [sendreply_servers]; rfl
    · rfl
  · intro hnone; simp [hnone]
  · intro b hb hfr
    simp only [hb, Option.isSome_some, if_true]
    have hg : getRq (newrqref w o') o' = some { r with refs := r.refs + 1 } := by
      unfold newrqref; rw [getRq_updRq_same, hr]; rfl
    rw [sendreply_stored (newrqref w o') o' ci _ b c hg hfr hb (by exact hc)]
    constructor
    · rw [getCli_updCli_same _ ci _ c (by exact hc)]; rfl
    · rw [getRq_updCli, getRq_setRq_same, hg]; rfl

/-- **A request with a reused identifier but another authenticator, or arriving at
    or after the interval, is new and supersedes the old entry**: the old entry is
    taken out of the cache (and its in-flight slot cancelled, see
    `removeclientrq`), the new request is cached under that identifier. -/
theorem reuse_supersedes (w : World) (o o' ci : Nat) (rq r : Rq) (c : Client)
    (hrq : getRq w o = some rq) (hfrm : rq.frm = some ci) (hc : getCli w ci = some c)
    (hcache : c.cache.getD rq.rqid.toNat none = some o') (hr : getRq w o' = some r)
    (hnew : ¬ (rq.rqauth = r.rqauth ∧ w.now - r.created < dupOf w c)) :
    addclientrq w o =
      (updCli (newrqref (removeclientrq w ci rq.rqid.toNat) o) ci
         (fun c => { c with cache := c.cache.set rq.rqid.toNat (some o) }), true) := by
  unfold addclientrq
  simp only [hrq, hfrm, hc, hcache, hr]
  unfold dupOf at hnew
  simp only [hnew, if_false]
  rfl

/-- an empty cache entry: the request is simply cached -/
theorem fresh_is_cached (w : World) (o ci : Nat) (rq : Rq) (c : Client)
    (hrq : getRq w o = some rq) (hfrm : rq.frm = some ci) (hc : getCli w ci = some c)
    (hcache : c.cache.getD rq.rqid.toNat none = none) :
    addclientrq w o = (updCli (newrqref w o) ci (fun c => { c with cache := c.cache.set rq.rqid.toNat (some o) }), true) := by
  unfold addclientrq
  simp only [hrq, hfrm, hc, hcache]
  rfl

/-- `removeclientrq` cancels the in-flight slot only if it still belongs to this request:
    a request whose slot was already re-used by another one leaves that slot alone. -/
theorem supersede_cancels_own_slot_only (w : World) (ci i o si : Nat) (c : Client) (r : Rq) (s : Server)
    (hc : getCli w ci = some c) (hcache : c.cache.getD i none = some o) (hr : getRq w o = some r)
    (hto : r.to = some si) (hs : getSrv w si = some s) (hother : (slotOf s r.newid).rq ≠ some o) :
    (removeclientrq w ci i).servers = w.servers := by
  unfold removeclientrq
  simp only [hc, hcache]
  rw [freerq_servers, updCli_servers]
  unfold cancelOutstanding
  simp only [hr, hto, hs, hother, if_false]

end Rsp.Props.C10
