/-
  Properties C07 / C20 for DNS-based discovery: the text buffers `dynamicconfigsrv` fills from SRV records are large enough for every
  record the parser can return, and the targets are tried in ascending priority.
-/
import Rsp.Model.Discover
namespace Rsp.Props.C07
open Rsp Rsp.Dns Rsp.Discover

/-- `%d` of a port never takes more than five characters -/
theorem dec_length (n : Nat) : (dec n).length ≤ 5 := by
  unfold dec
  repeat' split
  all_goals simp

/-- **C07 (discovered host:port).** Whatever SRV record is turned into a "host:port" text, the text and its terminator fit into
    `strlen(host) + 7` octets - the size `strlen(host) + sizeof(":65535")` the code allocates (tied by `Rsp.Tie.C07.hostport_alloc_fits`) -/
theorem hostport_fits (r : Srv) : (hostport r).length + 1 ≤ (cstr r.host).length + 7 := by
  unfold hostport
  have := dec_length r.port
  simp only [List.length_append, List.length_cons, List.length_nil]
  omega

/-- … and six octets would not do: a five-digit port needs all seven -/
theorem hostport_needs_seven : ∃ r : Srv, ¬ ((hostport r).length + 1 ≤ (cstr r.host).length + 6) :=
  ⟨{ priority := 0, weight := 0, port := 12083, host := [97] }, by decide⟩

/-- every port the SRV parser returns is a 16-bit value -/
theorem parseSrv_port_lt (msg : Bytes) (names : NameOracle) (rdoff : Nat) (r : Srv) (h : parseSrv msg names rdoff = some r) :
    r.port < 65536 := by
  unfold parseSrv at h
  split at h
  · cases h
  · split at h
    · cases h
    · cases h
      show be16 msg (rdoff + 4) < 65536
      unfold be16
      have h1 := (msg.getD (rdoff + 4) 0).toNat_lt
      have h2 := (msg.getD (rdoff + 4 + 1) 0).toNat_lt
      omega

/-! ### order of the targets -/

theorem insertRight_length (key : Srv) (l : List Srv) : (insertRight key l).length = l.length + 1 := by
  induction l with
  | nil => rfl
  | cons x rest ih => unfold insertRight; split <;> simp [ih]

theorem insertRight_mem (key : Srv) (l : List Srv) (y : Srv) : y ∈ insertRight key l ↔ y = key ∨ y ∈ l := by
  induction l with
  | nil => simp [insertRight]
  | cons x rest ih =>
    unfold insertRight
    split
    · simp only [List.mem_cons, ih]
      constructor
      · rintro (h | h | h)
        · exact Or.inr (Or.inl h)
        · exact Or.inl h
        · exact Or.inr (Or.inr h)
      · rintro (h | h | h)
        · exact Or.inr (Or.inl h)
        · exact Or.inl h
        · exact Or.inr (Or.inr h)
    · simp only [List.mem_cons]

/-- the sorted prefix, read right to left, stays in descending priority when a record is inserted -/
theorem insertRight_sorted (key : Srv) (l : List Srv) (h : l.Pairwise (fun a b => a.priority ≥ b.priority)) :
    (insertRight key l).Pairwise (fun a b => a.priority ≥ b.priority) := by
  induction l with
  | nil => simp [insertRight]
  | cons x rest ih =>
    rw [List.pairwise_cons] at h
    unfold insertRight
    split
    · rename_i hgt
      rw [List.pairwise_cons]
      refine ⟨?_, ih h.2⟩
      intro y hy
      rcases (insertRight_mem key rest y).mp hy with rfl | hy
      · omega
      · exact h.1 y hy
    · rename_i hle
      rw [List.pairwise_cons]
      refine ⟨?_, List.pairwise_cons.mpr h⟩
      intro y hy
      rcases List.mem_cons.mp hy with rfl | hy
      · omega
      · have := h.1 y hy
        omega

theorem foldl_insert_sorted (l acc : List Srv) (h : acc.Pairwise (fun a b => a.priority ≥ b.priority)) :
    (l.foldl (fun acc key => insertRight key acc) acc).Pairwise (fun a b => a.priority ≥ b.priority) := by
  induction l generalizing acc with
  | nil => exact h
  | cons x rest ih => exact ih _ (insertRight_sorted x acc h)

theorem foldl_insert_length (l acc : List Srv) :
    (l.foldl (fun acc key => insertRight key acc) acc).length = acc.length + l.length := by
  induction l generalizing acc with
  | nil => simp
  | cons x rest ih => simp only [List.foldl_cons, ih, insertRight_length, List.length_cons]; omega

/-- **C20 (order of discovery targets).** The discovered targets are tried in ascending priority, and none is lost or invented -/
theorem sortSrv_sorted (l : List Srv) : (sortSrv l).Pairwise (fun a b => a.priority ≤ b.priority) := by
  unfold sortSrv
  rw [List.pairwise_reverse]
  exact foldl_insert_sorted l [] List.Pairwise.nil

theorem sortSrv_length (l : List Srv) : (sortSrv l).length = l.length := by
  unfold sortSrv
  simp [foldl_insert_length]

/-- a record with unsuitable flags is passed over, not taken and not the end of the search -/
theorem naptrPick_skips (service : Bytes) (r : Naptr) (rest : List Naptr) (h : eqCI r.flags [83] = false) :
    naptrPick service (r :: rest) = naptrPick service rest := by
  simp [naptrPick, h]

example : (sortSrv [{ priority := 10, weight := 0, port := 1, host := [97] }, { priority := 5, weight := 0, port := 2, host := [98] },
                    { priority := 10, weight := 0, port := 3, host := [99] }]).map (·.port) = [2, 1, 3] := by decide

end Rsp.Props.C07
