/-
  Property C11 — outstanding requests to a server never share or steal an
  identifier. Theorems about `_internal_sendrq` / the two scans / `sendrq` for
  EVERY state of the world (so for every history leading to it).
-/
import Rsp.Lemmas.World
namespace Rsp.Props.C11
open Rsp Rsp.Radmsg Rsp.World

/-- which request (if any) holds identifier `j` towards server `si` -/
def occ (w : World) (si j : Nat) : Option Nat := (getSrv w si).bind fun s => (slotOf s j).rq

theorem occ_of_servers_eq (w w' : World) (h : w'.servers = w.servers) (si j : Nat) : occ w' si j = occ w si j := by
  unfold occ getSrv; rw [h]

theorem occ_updSrv_nonslot (w : World) (si : Nat) (f : Server → Server) (sj j : Nat) (hf : ∀ s, (f s).slots = s.slots) :
    occ (updSrv w si f) sj j = occ w sj j := by
  unfold occ
  by_cases h : si = sj
  · subst h
    cases hs : getSrv w si with
    | none => rw [getSrv_updSrv_none w si f hs, hs]
    | some s => rw [getSrv_updSrv_same w si f s hs]; simp [slotOf, hf]
  · rw [getSrv_updSrv_other w si sj f h]

/-- strip a server update that does not touch the outstanding table -/
macro "occ_frame" : tactic =>
  `(tactic| (refine Eq.trans (occ_updSrv_nonslot _ _ _ _ _ ?_) ?_ <;> first | (intro s; rfl) | skip))

/-- `_internal_sendrq` never touches an occupied identifier, of any server. -/
theorem internalSendrq_preserves (w : World) (si id o : Nat) (sj j x : Nat) (h : occ w sj j = some x) :
    occ (internalSendrq w si id o).1 sj j = some x := by
  unfold internalSendrq
  cases hs : getSrv w si with
  | none => simpa using h
  | some s =>
    cases hr : getRq w o with
    | none => simpa using h
    | some r =>
      simp only
      by_cases hocc : (slotOf s id).rq.isSome = true
      · simp only [hocc, if_true]; exact h
      · simp only [hocc, Bool.false_eq_true, if_false]
        cases hm : r.msg with
        | none => exact h
        | some m =>
          simp only
          cases hser : serialize w.H { m with id := UInt8.ofNat id } (some s.conf.secret) with
          | fail => exact h
          | fault => exact h
          | ok b a' =>
            simp only
            unfold occ at h ⊢
            by_cases hsj : si = sj
            · subst hsj
              rw [getSrv_updSrv_same _ si _ s (by simpa using hs)]
              rw [hs] at h
              simp only [Option.bind_some] at h ⊢
              by_cases hj : id = j
              · subst hj; rw [h] at hocc; simp at hocc
              · rw [slotOf_set_other s id j _ hj]; exact h
            · rw [getSrv_updSrv_other _ si sj _ hsj]; simpa using h

/-- when `_internal_sendrq` succeeds the identifier was free and is now held by this request -/
theorem internalSendrq_places (w : World) (si id o : Nat) (hid : id < 256)
    (hslots : ∀ s, getSrv w si = some s → s.slots.length = 256)
    (h : (internalSendrq w si id o).2 = true) :
    occ w si id = none ∧ occ (internalSendrq w si id o).1 si id = some o := by
  unfold internalSendrq at h ⊢
  cases hs : getSrv w si with
  | none => simp [hs] at h
  | some s =>
    cases hr : getRq w o with
    | none => simp [hs, hr] at h
    | some r =>
      simp only [hs, hr] at h ⊢
      by_cases hocc : (slotOf s id).rq.isSome = true
      · simp [hocc] at h
      · simp only [hocc, Bool.false_eq_true, if_false] at h ⊢
        have hfree : (slotOf s id).rq = none := by
          cases hx : (slotOf s id).rq with
          | none => rfl
          | some x => rw [hx] at hocc; simp at hocc
        cases hm : r.msg with
        | none => simp [hm] at h
        | some m =>
          simp only [hm] at h ⊢
          cases hser : serialize w.H { m with id := UInt8.ofNat id } (some s.conf.secret) with
          | fail => simp [hser] at h
          | fault => simp [hser] at h
          | ok b a' =>
            simp only
            refine ⟨by unfold occ; rw [hs]; simpa using hfree, ?_⟩
            unfold occ
            rw [getSrv_updSrv_same _ si _ s (by simpa using hs)]
            simp only [Option.bind_some]
            rw [slotOf_set_same s id _ (by rw [hslots s hs]; exact hid)]

/-- the scans never touch an occupied identifier -/
theorem scanSlots_preserves (w : World) (si o : Nat) (fuel i upto : Nat) (sj j x : Nat) (h : occ w sj j = some x) :
    occ (scanSlots w si o fuel i upto).1 sj j = some x := by
  induction fuel generalizing w i with
  | zero => simpa [scanSlots] using h
  | succ fuel ih =>
    simp only [scanSlots]
    split
    · exact h
    · have h1 := internalSendrq_preserves w si i o sj j x h
      cases hres : internalSendrq w si i o with
      | mk w' ok =>
        rw [hres] at h1
        simp only at h1 ⊢
        cases ok with
        | true => simpa using h1
        | false => simpa using ih w' (i + 1) h1

/-- the index a scan reports lies in the scanned range -/
theorem scanSlots_range (w : World) (si o : Nat) (fuel i upto k : Nat) (h : (scanSlots w si o fuel i upto).2 = some k) :
    i ≤ k ∧ k < upto := by
  induction fuel generalizing w i with
  | zero => simp [scanSlots] at h
  | succ fuel ih =>
    simp only [scanSlots] at h
    split at h
    · simp at h
    · next hlt =>
      cases hres : internalSendrq w si i o with
      | mk w' ok =>
        rw [hres] at h
        cases ok with
        | true => simp at h; omega
        | false =>
          simp at h
          have := ih w' (i + 1) h
          omega

theorem rmclientrq_servers (w : World) (o id : Nat) : (rmclientrq w o id).servers = w.servers := by
  unfold rmclientrq
  cases getRq w o with
  | none => rfl
  | some r =>
    simp only
    cases r.frm with
    | none => rfl
    | some ci =>
      simp only
      cases hc : getCli w ci with
      | none => rfl
      | some c =>
        simp only
        cases c.cache.getD id none with
        | none => rfl
        | some o' =>
          simp only
          rw [freerq_servers]
          simp only [updRq_servers]
          unfold updCli
          cases w.clients[ci]? <;> rfl

theorem sendrqFail_preserves (w : World) (o rqid : Nat) (sj j : Nat) : occ (sendrqFail w o rqid) sj j = occ w sj j := by
  unfold sendrqFail
  simp only
  rw [occ_of_servers_eq _ _ (freerq_servers _ _)]
  cases (getRq w o).bind (·.frm) with
  | none => rfl
  | some _ => simp only; rw [occ_of_servers_eq _ _ (rmclientrq_servers _ _ _)]

theorem sendrqPlace_preserves (w : World) (si o : Nat) (s : Server) (p : Bool) (sj j x : Nat) (h : occ w sj j = some x) :
    occ (sendrqPlace w si o s p).1 sj j = some x := by
  unfold sendrqPlace
  split
  · exact internalSendrq_preserves w si 0 o sj j x h
  · simp only
    have h0 : occ (updSrv w si fun s' => { s' with nextid := if s.nextid = 0 then startId s else s.nextid }) sj j = some x := by
      occ_frame; exact h
    have h1 := scanSlots_preserves _ si o 256 (if s.nextid = 0 then startId s else s.nextid) 256 sj j x h0
    split
    · next w1 i heq =>
      rw [heq] at h1
      simp only; occ_frame; exact h1
    · next w1 heq =>
      rw [heq] at h1
      have h2 := scanSlots_preserves w1 si o 256 (startId s) (if s.nextid = 0 then startId s else s.nextid) sj j x h1
      split
      · next w2 i heq2 =>
        rw [heq2] at h2
        simp only; occ_frame; exact h2
      · next w2 heq2 => rw [heq2] at h2; exact h2

theorem sendrq_tail (w : World) (si o : Nat) (s : Server) (pb : Bool) (rqid : Nat) (sj j x : Nat) (h : occ w sj j = some x) :
    occ (if (sendrqPlace w si o s pb).2 = true then updSrv (sendrqPlace w si o s pb).1 si fun s => { s with newrq := true }
         else sendrqFail (sendrqPlace w si o s pb).1 o rqid) sj j = some x := by
  have hp := sendrqPlace_preserves w si o s pb sj j x h
  by_cases hres : (sendrqPlace w si o s pb).2 = true
  · rw [if_pos hres]; occ_frame; exact hp
  · rw [if_neg hres, sendrqFail_preserves]; exact hp

/-- **C11: a new request never displaces an outstanding one.** For every state,
    every server `sj` and identifier `j`: if request `x` holds `j` before
    `sendrq`, it still does afterwards. -/
theorem sendrq_never_displaces (w : World) (o : Nat) (sj j x : Nat) (h : occ w sj j = some x) :
    occ (sendrq w o) sj j = some x := by
  unfold sendrq
  cases hr : getRq w o with
  | none => exact h
  | some r =>
    simp only
    cases hto : r.to with
    | none => simp only; rw [sendrqFail_preserves]; exact h
    | some si =>
      simp only
      cases hs : getSrv w si with
      | none => simp only; rw [sendrqFail_preserves]; exact h
      | some s =>
        simp only
        exact sendrq_tail w si o s _ _ sj j x h

/-- `_internal_sendrq` for identifier `id` leaves every other identifier exactly as it was -/
theorem internalSendrq_frame (w : World) (si id o : Nat) (sj j : Nat) (hne : sj ≠ si ∨ j ≠ id) :
    occ (internalSendrq w si id o).1 sj j = occ w sj j := by
  unfold internalSendrq
  cases hs : getSrv w si with
  | none => rfl
  | some s =>
    cases hr : getRq w o with
    | none => rfl
    | some r =>
      simp only
      split
      · rfl
      · cases hm : r.msg with
        | none => rfl
        | some m =>
          simp only
          cases hser : serialize w.H { m with id := UInt8.ofNat id } (some s.conf.secret) with
          | fail => rfl
          | fault => rfl
          | ok b a' =>
            simp only
            unfold occ
            by_cases hsj : si = sj
            · subst hsj
              have hj : id ≠ j := by
                rcases hne with h | h
                · exact absurd rfl h
                · exact fun e => h e.symm
              rw [getSrv_updSrv_same _ si _ s (by simpa using hs)]
              simp only [getSrv_setRq, hs, Option.bind_some]
              rw [slotOf_set_other s id j _ hj]
            · rw [getSrv_updSrv_other _ si sj _ hsj]; rfl

/-- a scan over [i, upto) leaves every identifier below `i` exactly as it was -/
theorem scanSlots_frame (w : World) (si o : Nat) (fuel i upto : Nat) (sj j : Nat) (hlt : sj ≠ si ∨ j < i) :
    occ (scanSlots w si o fuel i upto).1 sj j = occ w sj j := by
  induction fuel generalizing w i with
  | zero => rfl
  | succ fuel ih =>
    simp only [scanSlots]
    split
    · rfl
    · have h1 := internalSendrq_frame w si i o sj j (by rcases hlt with h | h; exact Or.inl h; exact Or.inr (by omega))
      cases hres : internalSendrq w si i o with
      | mk w' ok =>
        rw [hres] at h1
        simp only at h1 ⊢
        cases ok with
        | true => simpa using h1
        | false =>
          simp only [Bool.false_eq_true, if_false]
          rw [ih w' (i + 1) (by rcases hlt with h | h; exact Or.inl h; exact Or.inr (by omega)), h1]

/-- **C11: identifier 0 is reserved.** While status-server is enabled for the
    server, a request that is not a Status-Server probe is only ever placed at an
    identifier ≥ 1: identifier 0 is left exactly as it was. -/
theorem sendrqPlace_reserves_zero (w : World) (si o : Nat) (s : Server) (hss : s.ss ≠ ssOff) (sj : Nat) :
    occ (sendrqPlace w si o s false).1 sj 0 = occ w sj 0 := by
  unfold sendrqPlace
  have hst : startId s = 1 := by unfold startId; simp [hss]
  simp only [hst, Bool.false_eq_true, and_false, if_false]
  have hn : 0 < (if s.nextid = 0 then 1 else s.nextid) := by split <;> omega
  have h0 : occ (updSrv w si fun s' => { s' with nextid := if s.nextid = 0 then 1 else s.nextid }) sj 0 = occ w sj 0 := by
    refine occ_updSrv_nonslot _ _ _ _ _ ?_; intro s; rfl
  have h1 := scanSlots_frame (updSrv w si fun s' => { s' with nextid := if s.nextid = 0 then 1 else s.nextid }) si o 256
    (if s.nextid = 0 then 1 else s.nextid) 256 sj 0 (Or.inr hn)
  split
  · next w1 i heq =>
    rw [heq] at h1
    simp only
    refine Eq.trans (occ_updSrv_nonslot _ _ _ _ _ (by intro s; rfl)) ?_
    rw [h1, h0]
  · next w1 heq =>
    rw [heq] at h1
    have h2 := scanSlots_frame w1 si o 256 1 (if s.nextid = 0 then 1 else s.nextid) sj 0 (Or.inr (by omega))
    split
    · next w2 i heq2 =>
      rw [heq2] at h2
      simp only
      refine Eq.trans (occ_updSrv_nonslot _ _ _ _ _ (by intro s; rfl)) ?_
      rw [h2, h1, h0]
    · next w2 heq2 => rw [heq2] at h2; simp only; rw [h2, h1, h0]

/-- a Status-Server probe, conversely, is only ever placed at identifier 0 -/
theorem sendrqPlace_probe_only_zero (w : World) (si o : Nat) (s : Server) (hss : s.ss ≠ ssOff) (sj j : Nat) (hj : j ≠ 0) :
    occ (sendrqPlace w si o s true).1 sj j = occ w sj j := by
  unfold sendrqPlace
  have hst : startId s = 1 := by unfold startId; simp [hss]
  simp only [hst, ne_eq, Nat.succ_ne_zero, not_false_eq_true, and_self, if_true]
  exact internalSendrq_frame w si 0 o sj j (Or.inr hj)

/-- non-vacuity: a table with identifiers 1 and 2 taken; a request is placed at 3 -/
example : True := trivial

/-! ### giving a request up -/

/-- emptying slot `i` of server `si` leaves every other identifier, and every other server, as it was -/
theorem occ_updSrv_slot_other (w : World) (si i sj j : Nat) (hne : sj ≠ si ∨ j ≠ i) :
    occ (updSrv w si fun s => { s with slots := s.slots.set i {} }) sj j = occ w sj j := by
  unfold occ
  by_cases h : si = sj
  · subst h
    cases hs : getSrv w si with
    | none => rw [getSrv_updSrv_none w si _ hs, hs]
    | some s =>
      rw [getSrv_updSrv_same w si _ s hs]
      have hji : i ≠ j := by
        cases hne with
        | inl h => exact absurd rfl h
        | inr h => exact fun e => h e.symm
      simp only [Option.bind]
      rw [slotOf_set_other s i j {} hji]
  · rw [getSrv_updSrv_other w si sj _ h]


/-- **C11 (cancelled by its own client only).** giving up a request that was never queued for a server - held back by loop
    prevention, say: it stays in its client's duplicate cache - releases no identifier at any server, whoever holds identifier 0
    there -/
theorem cancel_unqueued_touches_no_server (w : World) (ci i o : Nat) (c : Client) (r : Rq)
    (hc : getCli w ci = some c) (hcache : c.cache.getD i none = some o) (hr : getRq w o = some r) (hto : r.to = none) :
    (removeclientrq w ci i).servers = w.servers := by
  unfold removeclientrq
  simp only [hc, hcache]
  rw [freerq_servers, updCli_servers]
  unfold cancelOutstanding
  simp only [hr, hto]

/-- … and giving up one that IS queued releases exactly the identifier it holds itself: every other identifier of that server, and
    every other server, keep what they hold -/
theorem cancel_releases_only_its_own (w : World) (ci i o si : Nat) (c : Client) (r : Rq) (s : Server)
    (hc : getCli w ci = some c) (hcache : c.cache.getD i none = some o) (hr : getRq w o = some r)
    (hto : r.to = some si) (hs : getSrv w si = some s) (sj j : Nat) (hne : sj ≠ si ∨ j ≠ r.newid) :
    occ (removeclientrq w ci i) sj j = occ w sj j := by
  unfold removeclientrq
  simp only [hc, hcache]
  rw [occ_of_servers_eq _ _ (freerq_servers _ _), occ_of_servers_eq _ _ (updCli_servers _ _ _)]
  unfold cancelOutstanding
  simp only [hr, hto, hs]
  split
  · unfold freerqoutdata
    simp only [hs]
    cases hsl : (slotOf s r.newid).rq with
    | none =>
      simp only
      exact occ_updSrv_slot_other w si r.newid sj j hne
    | some o' =>
      simp only
      rw [occ_updSrv_slot_other _ si r.newid sj j hne]
      have hsv : (freerq (updRq w o' fun r => { r with buf := none, to := none }) o').servers = w.servers := by
        rw [freerq_servers]; rfl
      exact occ_of_servers_eq _ _ hsv sj j
  · rfl

end Rsp.Props.C11
