/-
  Property C02 — replies return to the originating client with its identifier and
  authenticator. Theorems on the delivery primitives of the World model, for
  every state.
-/
import Rsp.Props.C06
import Rsp.Props.C04
namespace Rsp.Props.C02
open Rsp Rsp.Radmsg Rsp.World Rsp.Spec

theorem getCli_updCli_other (w : World) (i j : Nat) (f : Client → Client) (hij : i ≠ j) :
    getCli (updCli w i f) j = getCli w j := by
  unfold updCli getCli
  cases hs : w.clients[i]? with
  | none => rfl
  | some c => simp [List.getElem?_set, hij]

theorem getCli_freerq (w : World) (o i : Nat) : getCli (freerq w o) i = getCli w i := by
  unfold getCli; rw [freerq_clients]

/-- **Delivery goes to the originating association only.** `sendreply` for request `o`
    appends `o` to the reply queue of the association recorded in the request
    (`rq->from`) and leaves every other association's queue exactly as it was. -/
theorem sendreply_only_origin (w : World) (o ci : Nat) (r : Rq) (hr : getRq w o = some r) (hf : r.frm = some ci)
    (cj : Nat) (hne : cj ≠ ci) : getCli (sendreply w o) cj = getCli w cj := by
  unfold sendreply
  simp only [hr, hf]
  cases replyBytes w r (secretOfCli w ci) with
  | none => simp only; rw [getCli_freerq]; rfl
  | some b =>
    simp only
    split
    · rw [getCli_updCli_other _ ci cj _ (fun h => hne h.symm)]; rfl
    · rw [getCli_freerq]; rfl

/-- … and the origin's queue gains exactly this request, at the end -/
theorem sendreply_queues_once (w : World) (o ci : Nat) (r : Rq) (c : Client) (b : Bytes)
    (hr : getRq w o = some r) (hf : r.frm = some ci) (hc : getCli w ci = some c)
    (hb : replyBytes w r (secretOfCli w ci) = some b) :
    (getCli (sendreply w o) ci).map (·.replyq) = some (c.replyq ++ [o]) ∧
    (getRq (sendreply w o) o).bind (·.replybuf) = some b := by
  unfold sendreply
  have hc' : (getCli (setRq w o { r with replybuf := some b, msg := none, frm := some ci }) ci).isSome = true := by
    have : getCli (setRq w o { r with replybuf := some b, msg := none, frm := some ci }) ci = getCli w ci := rfl
    rw [this, hc]; rfl
  simp only [hr, hf, hb, hc', if_true]
  constructor
  · rw [getCli_updCli_same _ ci _ c (by exact hc)]; rfl
  · rw [getRq_updCli, getRq_setRq_same, hr]; rfl

/-- what `replyBytes` produces for a freshly built reply: the serialisation of the
    message under the CLIENT's secret -/
theorem replyBytes_fresh (w : World) (r : Rq) (m : Msg) (sec b a' : Bytes)
    (hnb : r.replybuf = none) (hm : r.msg = some m) (hser : serialize w.H m (some sec) = .ok b a') :
    replyBytes w r sec = some b := by
  unfold replyBytes; simp only [hnb, hm, hser]

/-- the serializer copies code and identifier of the message into the packet -/
theorem serialize_header (H : Hashes) (hmd5 : ∀ x, (H.md5 x).length = 16) (hhmac : ∀ k x, (H.hmacMd5 k x).length = 16)
    (m : Msg) (sec b a' : Bytes) (ha : m.auth.length = 16) (h : serialize H m (some sec) = .ok b a') :
    b.take 2 = [m.code, m.id] := by
  replace h := C06.serialize_eq H _ _ _ _ h
  split at h
  · cases h
  · cases hs : stage1 H m sec with
    | none => simp [hs] at h
    | some b1 =>
      obtain ⟨hl, ht, _, _⟩ := C06.stage1_props H hhmac m sec b1 ha hs
      have hraw := C06.rawPacket_length m ha
      have h2 : b1.take 2 = [m.code, m.id] := by
        have : b1.take 2 = (b1.take 4).take 2 := by rw [List.take_take]; rfl
        rw [this, ht]; rfl
      simp only [hs] at h
      split at h
      · cases h
        have h16 := hmd5 (b1 ++ sec)
        rw [splice_take _ _ 4 2 (by omega) (by rw [h16, hl, hraw]; omega)]; exact h2
      · cases h; exact h2

/-- **The delivered packet carries the client's identifier and a Response
    Authenticator over the client's Request Authenticator.** For a message whose
    `id`/`auth` were set back to the values recorded when the request arrived
    (what `replyh` does before `sendreply`), the bytes queued are a packet with that
    identifier whose Response Authenticator verifies under the client's secret
    and its original Request Authenticator. -/
theorem delivered_packet_matches_request (H : Hashes) (hmd5 : ∀ x, (H.md5 x).length = 16) (hhmac : ∀ k x, (H.hmacMd5 k x).length = 16)
    (code rqid : UInt8) (rqauth : Bytes) (attrs : List Tlv) (sec b a' : Bytes) (ha : rqauth.length = 16)
    (hcode : signedCode code = true)
    (h : serialize H { code := code, id := rqid, auth := rqauth, attrs := attrs } (some sec) = .ok b a') :
    b.take 2 = [code, rqid] ∧ respAuthValid H b rqauth sec = true :=
  ⟨serialize_header H hmd5 hhmac _ sec b a' ha h, C06.serialize_resp_auth H hmd5 hhmac _ sec b a' ha hcode h⟩

/-- **Exactly once.** After a delivery the slot is empty (`freerqoutdata`), so by
    C04 a second copy of the reply meets an empty slot and changes nothing. -/
theorem second_copy_changes_nothing (w : World) (si : Nat) (buf : Bytes) (s0 : Server)
    (hs : getSrv w si = some s0) (hempty : (slotOf s0 (buf.getD 1 0).toNat).rq = none) :
    (replyh w si buf).1 = C04.touched w si := by
  apply C04.replyh_reject_changes_nothing w si buf s0 hs
  intro ⟨o, rq, m, hsl, _⟩
  rw [hempty] at hsl; cases hsl

end Rsp.Props.C02
