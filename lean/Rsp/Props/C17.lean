/-
  Property C17 — request state is released exactly once, and threads never deadlock.
  (i) reference counting primitives of the World model; (ii) the ranked lock
  hierarchy excludes every waits-for cycle.
-/
import Rsp.Model.World
import Rsp.Spec.Locks
namespace Rsp.Props.C17
open Rsp Rsp.World

/-! ### deadlock freedom from the rank discipline -/

/-- A snapshot of blocked threads: thread `t` waits for mutex `waits t` and holds the mutexes
    in `holds t`. `rk` ranks the mutexes. -/
structure Snapshot (T L : Type) where
  waits : T → L
  holds : T → L → Prop
  rk : L → Nat
  /-- the discipline: a thread only ever asks for a mutex ranked above everything it holds -/
  ordered : ∀ t l, holds t l → rk l < rk (waits t)

/-- a chain t₀, t₁, … in which each thread waits for a mutex the next one holds -/
def WaitChain {T L} (s : Snapshot T L) : List T → Prop
  | [] => True
  | [_] => True
  | a :: b :: rest => s.holds b (s.waits a) ∧ WaitChain s (b :: rest)

theorem chain_rank_increases {T L} (s : Snapshot T L) (a : T) (l : List T) (h : WaitChain s (a :: l)) :
    s.rk (s.waits a) ≤ s.rk (s.waits ((a :: l).getLast (by simp))) := by
  induction l generalizing a with
  | nil => simp
  | cons b rest ih =>
    obtain ⟨hh, hc⟩ := h
    have h1 := s.ordered b _ hh
    have h2 := ih b hc
    simp only [List.getLast_cons_cons]
    omega

/-- **C17 (no deadlock).** Under the rank discipline no set of threads can wait for each
    other in a cycle: a chain whose last thread waits for a mutex held by the first cannot exist. -/
theorem no_waits_for_cycle {T L} (s : Snapshot T L) (a : T) (l : List T) (h : WaitChain s (a :: l))
    (hclose : s.holds a (s.waits ((a :: l).getLast (by simp)))) : False := by
  have h1 := chain_rank_increases s a l h
  have h2 := s.ordered a _ hclose
  omega

/-- the hierarchy used by the check is a strict order on classes: the premise of the theorem above is
    what `edgeOk` tests on every (held, acquired) pair the real code exhibits -/
theorem edgeOk_sound (h a : String) (ch ca : Spec.Locks.LockClass)
    (hh : Spec.Locks.classOf h = some ch) (ha : Spec.Locks.classOf a = some ca) :
    Spec.Locks.edgeOk h a = some true ↔ Spec.Locks.rank ch < Spec.Locks.rank ca := by
  unfold Spec.Locks.edgeOk; rw [hh, ha]; simp

/-! ### reference counting primitives -/

theorem find_map_same (heap : List (Nat × Rq)) (o : Nat) (r' : Rq) (h : (heap.find? (·.1 = o)).isSome) :
    ((heap.map fun p => if p.1 = o then (o, r') else p).find? (·.1 = o)) = some (o, r') := by
  induction heap with
  | nil => simp at h
  | cons p t ih =>
    simp only [List.map_cons, List.find?_cons] at h ⊢
    by_cases hp : p.1 = o
    · simp [hp]
    · simp only [hp, decide_false] at h ⊢
      simpa [hp] using ih h

theorem find_map_other (heap : List (Nat × Rq)) (o o' : Nat) (r' : Rq) (hne : o' ≠ o) :
    ((heap.map fun p => if p.1 = o then (o, r') else p).find? (·.1 = o')) = heap.find? (·.1 = o') := by
  induction heap with
  | nil => rfl
  | cons p t ih =>
    simp only [List.map_cons, List.find?_cons]
    by_cases hp : p.1 = o
    · have hp' : ¬ p.1 = o' := by rw [hp]; exact fun h => hne h.symm
      have : ¬ o = o' := fun h => hne h.symm
      simp only [hp, if_true, this, decide_false, hp']
      exact ih
    · simp only [hp, if_false]
      by_cases hq : p.1 = o'
      · simp [hq]
      · simp only [hq, decide_false]
        exact ih

theorem getRq_setRq_same (w : World) (o : Nat) (r r' : Rq) (h : getRq w o = some r) :
    getRq (setRq w o r') o = some r' := by
  unfold getRq setRq at *
  simp only
  rw [find_map_same w.heap o r' (by cases hf : w.heap.find? (·.1 = o) <;> simp_all)]
  rfl

theorem getRq_setRq_other (w : World) (o o' : Nat) (r' : Rq) (hne : o' ≠ o) :
    getRq (setRq w o r') o' = getRq w o' := by
  unfold getRq setRq
  simp only
  rw [find_map_other w.heap o o' r' hne]

theorem find_filter_other (heap : List (Nat × Rq)) (o o' : Nat) (hne : o' ≠ o) :
    ((heap.filter (·.1 ≠ o)).find? (·.1 = o')) = heap.find? (·.1 = o') := by
  induction heap with
  | nil => rfl
  | cons p t ih =>
    by_cases hp : p.1 = o
    · have hp' : ¬ p.1 = o' := by rw [hp]; exact fun h => hne h.symm
      have e1 : (p :: t).filter (·.1 ≠ o) = t.filter (·.1 ≠ o) := by simp [List.filter_cons, hp]
      have e2 : (p :: t).find? (·.1 = o') = t.find? (·.1 = o') := by simp [List.find?_cons, hp']
      rw [e1, e2]; exact ih
    · simp only [List.filter_cons, hp, ne_eq, not_false_eq_true, decide_true, if_true, List.find?_cons]
      by_cases hq : p.1 = o'
      · simp [hq]
      · simp only [hq, decide_false]
        exact ih

/-- **C17 (release).** Dropping a reference to an object with further holders only lowers its count … -/
theorem freerq_keeps (w : World) (o : Nat) (r : Rq) (h : getRq w o = some r) (h2 : 2 ≤ r.refs) :
    getRq (freerq w o) o = some { r with refs := r.refs - 1 } ∧ (freerq w o).freed = w.freed := by
  unfold freerq
  rw [h]
  have : ¬ r.refs ≤ 1 := by omega
  simp only [this, if_false]
  exact ⟨getRq_setRq_same w o r _ h, by unfold setRq; rfl⟩

/-- … and dropping the last reference releases it, exactly once: it is gone from the heap and
    the release counter moves by one. -/
theorem freerq_last (w : World) (o : Nat) (r : Rq) (h : getRq w o = some r) (h1 : r.refs ≤ 1) :
    getRq (freerq w o) o = none ∧ (freerq w o).freed = w.freed + 1 := by
  unfold freerq
  rw [h]
  simp only [h1, if_true]
  constructor
  · unfold getRq
    simp only
    have : (w.heap.filter (·.1 ≠ o)).find? (·.1 = o) = none := by
      rw [List.find?_eq_none]
      intro x hx
      simp only [List.mem_filter] at hx
      simpa using hx.2
    rw [this]; rfl
  · trivial

/-- releasing one object never touches another -/
theorem freerq_other (w : World) (o o' : Nat) (hne : o' ≠ o) : getRq (freerq w o) o' = getRq w o' := by
  unfold freerq
  cases h : getRq w o with
  | none => rfl
  | some r =>
    simp only
    split
    · unfold getRq
      simp only
      rw [find_filter_other w.heap o o' hne]
    · exact getRq_setRq_other w o o' _ hne

/-- a released object cannot be released again: `freerq` on an absent object does nothing -/
theorem freerq_absent (w : World) (o : Nat) (h : getRq w o = none) : freerq w o = w := by
  unfold freerq; rw [h]

end Rsp.Props.C17
