/-
  Property C16 — framing round trip: back-to-back well-framed packets, however the transport cuts them
  into writes, come out of `tcpserverrd`'s loop as exactly those packets. Composes `framesOut`
  (the specification of the decomposition) with `server_framing_depends_only_on_stream` (the reader meets it).
-/
import Rsp.Props.C16
namespace Rsp.Props.C16
open Rsp Rsp.Stream

/-- a packet as a RADIUS peer puts it on a stream: length field = its length, within 20..4096 -/
def WellFramed (p : Bytes) : Prop := 20 ≤ p.length ∧ p.length ≤ 4096 ∧ radLen (p.take 4) = p.length

theorem framesOut_cons (fuel : Nat) (p rest : Bytes) (hp : WellFramed p) :
    framesOut (fuel + 1) (p ++ rest) = .pkt p :: framesOut fuel rest := by
  obtain ⟨h20, h4096, hl⟩ := hp
  rw [framesOut]
  have ht : (p ++ rest).take 4 = p.take 4 := List.take_append_of_le_length (by omega)
  have h4 : ¬ (p ++ rest).length < 4 := by simp; omega
  simp only [h4, if_false, ht, hl]
  have hb : ¬ (p.length < 20 ∨ p.length > 4096) := by omega
  have hs : ¬ (p ++ rest).length < p.length := by simp
  simp only [hb, hs, if_false, List.take_left, List.drop_left]

/-- **Framing round trip.** Whatever number of well-framed packets a peer writes back to back, followed by anything,
    the stream decomposes into exactly those packets, in order, none merged, split, lost or repeated — and then
    into whatever the rest decomposes into. -/
theorem framesOut_concat (ps : List Bytes) (tail : Bytes) (k : Nat) (hps : ∀ p ∈ ps, WellFramed p) :
    framesOut (ps.length + k) (ps.flatten ++ tail) = ps.map .pkt ++ framesOut k tail := by
  induction ps with
  | nil => simp
  | cons p t ih =>
    have : (p :: t).length + k = (t.length + k) + 1 := by simp; omega
    rw [this, List.flatten_cons, List.append_assoc, framesOut_cons _ _ _ (hps p List.mem_cons_self),
      ih (fun x hx => hps x (List.mem_cons_of_mem _ hx))]
    simp

/-- **What was written is what is read**, for every number of packets, every cut into writes and every placement
    of silences: the reader's loop yields the packets written, in order, and then treats the rest of the stream
    on its own. -/
theorem server_reads_what_was_written (ps : List Bytes) (tail : Bytes) (k : Nat) (e : List Ev) (he : NoEof e)
    (hps : ∀ p ∈ ps, WellFramed p) (hdata : dataOf e = ps.flatten ++ tail) :
    serverLoop (ps.length + k) { script := e } = ps.map .pkt ++ framesOut k tail := by
  rw [server_framing_depends_only_on_stream _ _ ⟨rfl, he⟩]
  have : pending ({ script := e } : Sock) = ps.flatten ++ tail := by simp [pending, hdata]
  rw [this, framesOut_concat ps tail k hps]

/-- non-vacuity: two 20-octet packets written as three pieces with a silence between -/
example : serverLoop 2 { script := [.data [1, 1, 0, 20], .stall, .data (List.replicate 16 7 ++ [2, 9, 0]), .data (20 :: List.replicate 16 8)] } =
    [.pkt ([1, 1, 0, 20] ++ List.replicate 16 7), .pkt ([2, 9, 0, 20] ++ List.replicate 16 8)] := by decide

end Rsp.Props.C16
