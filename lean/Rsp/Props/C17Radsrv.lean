/-
  Property C17 for `radsrv` as a whole: whatever a request contains and whatever state the proxy is in, the
  reference the transport hands to `radsrv` is consumed exactly once — it ends up in a server slot, in the
  reply queue, or is dropped — and every other count stays equal to the number of holders.

  The stages of `radsrv` (World.lean: radsrvCore / radsrvRewrite / radsrvRoute / radsrvForward) are walked one
  after the other; each keeps the invariant with one in-flight reference on the request.
-/
import Rsp.Props.C17Inv
namespace Rsp.Props.C17
open Rsp Rsp.World Rsp.Refs

/-! ### what the steps leave alone -/

/-- `w'` came from `w` by steps that do not re-home requests, forget associations or resize tables -/
structure Stable (w w' : World) : Prop where
  frm : ∀ o r', getRq w' o = some r' → ∃ r, getRq w o = some r ∧ r'.frm = r.frm
  cli : ∀ ci c, getCli w ci = some c → ∃ c', getCli w' ci = some c'
  cache : ∀ ci c', getCli w' ci = some c' → ∃ c, getCli w ci = some c ∧ c'.cache.length = c.cache.length
  srv : ∀ si s', getSrv w' si = some s' → ∃ s, getSrv w si = some s ∧ s'.slots.length = s.slots.length ∧ (s.nextid ≤ 256 → s'.nextid ≤ 256)
  ord : w'.nextOrd = w.nextOrd

theorem Stable.refl (w : World) : Stable w w :=
  ⟨fun _ r' h => ⟨r', h, rfl⟩, fun _ c h => ⟨c, h⟩, fun _ c' h => ⟨c', h, rfl⟩, fun _ s' h => ⟨s', h, rfl, id⟩, rfl⟩

theorem Stable.trans {a b c : World} (h1 : Stable a b) (h2 : Stable b c) : Stable a c := by
  refine ⟨?_, ?_, ?_, ?_, h2.ord.trans h1.ord⟩
  · intro o r' h
    obtain ⟨r, hr, e⟩ := h2.frm o r' h
    obtain ⟨r0, hr0, e0⟩ := h1.frm o r hr
    exact ⟨r0, hr0, e.trans e0⟩
  · intro ci x h
    obtain ⟨c', hc'⟩ := h1.cli ci x h
    exact h2.cli ci c' hc'
  · intro ci c' h
    obtain ⟨x, hx, e⟩ := h2.cache ci c' h
    obtain ⟨y, hy, e'⟩ := h1.cache ci x hx
    exact ⟨y, hy, e.trans e'⟩
  · intro si s' h
    obtain ⟨x, hx, e, n⟩ := h2.srv si s' h
    obtain ⟨y, hy, e', n'⟩ := h1.srv si x hx
    exact ⟨y, hy, e.trans e', fun hh => n (n' hh)⟩

theorem Stable.wf {w w' : World} (h : Stable w w') (wf : WF w) : WF w' := by
  refine ⟨?_, ?_, ?_⟩
  · intro si s' hs
    obtain ⟨s, hs0, e, _⟩ := h.srv si s' hs
    rw [e]; exact wf.slots si s hs0
  · intro ci c' hc
    obtain ⟨c, hc0, e⟩ := h.cache ci c' hc
    rw [e]; exact wf.cache ci c hc0
  · intro si s' hs
    obtain ⟨s, hs0, _, n⟩ := h.srv si s' hs
    exact n (wf.nextid si s hs0)

/-- only the heap changed, and no surviving object was re-homed -/
theorem stable_heap (w w' : World) (hs : w'.servers = w.servers) (hc : w'.clients = w.clients)
    (hf : ∀ o r', getRq w' o = some r' → ∃ r, getRq w o = some r ∧ r'.frm = r.frm) (ho : w'.nextOrd = w.nextOrd := by rfl) : Stable w w' := by
  refine ⟨hf, ?_, ?_, ?_, ho⟩
  · intro ci c h; exact ⟨c, by unfold getCli at *; rw [hc]; exact h⟩
  · intro ci c' h; exact ⟨c', by unfold getCli at *; rw [← hc]; exact h, rfl⟩
  · intro si s' h; exact ⟨s', by unfold getSrv at *; rw [← hs]; exact h, rfl, id⟩

theorem stable_updRq (w : World) (o : Nat) (f : Rq → Rq) (hf : ∀ r, (f r).frm = r.frm) : Stable w (updRq w o f) := by
  refine stable_heap w (updRq w o f) rfl rfl ?_
  intro o' r' h
  by_cases ho : o' = o
  · subst ho
    cases hr : getRq w o' with
    | none => rw [getRq_updRq_none w o' o' f hr] at h; cases h
    | some r =>
      rw [getRq_updRq_same w o' f r hr] at h
      cases h
      exact ⟨r, rfl, hf r⟩
  · rw [getRq_updRq_other w o o' f ho] at h
    exact ⟨r', h, rfl⟩

theorem stable_setRq (w : World) (o : Nat) (r r1 : Rq) (hr : getRq w o = some r) (hf : r1.frm = r.frm) : Stable w (setRq w o r1) := by
  refine stable_heap w (setRq w o r1) rfl rfl ?_
  intro o' r' h
  by_cases ho : o' = o
  · subst ho
    rw [getRq_setRq_same w o' r r1 hr] at h
    cases h
    exact ⟨r, hr, hf⟩
  · rw [getRq_setRq_other w o o' r1 ho] at h
    exact ⟨r', h, rfl⟩

theorem getRq_filter_ne (w : World) (o o' : Nat) (x : Nat) (r' : Rq)
    (h : getRq { w with heap := w.heap.filter (·.1 ≠ o), freed := x } o' = some r') : getRq w o' = some r' := by
  unfold getRq at *
  simp only at h
  rw [List.find?_filter] at h
  by_cases hoo : o' = o
  · subst hoo
    have : w.heap.find? (fun a => decide (decide (a.1 ≠ o') = true ∧ decide (a.1 = o') = true)) = none := by
      apply List.find?_eq_none.mpr
      intro a _
      by_cases ha : a.1 = o' <;> simp [ha]
    rw [this] at h; cases h
  · have : (fun a : Nat × Rq => decide (decide (a.1 ≠ o) = true ∧ decide (a.1 = o') = true)) = (fun a => decide (a.1 = o')) := by
      funext a
      by_cases ha : a.1 = o'
      · have : a.1 ≠ o := by rw [ha]; exact hoo
        simp [ha, hoo]
      · simp [ha]
    rw [this] at h
    exact h

theorem stable_freerq (w : World) (o : Nat) : Stable w (freerq w o) := by
  unfold freerq
  cases hr : getRq w o with
  | none => exact Stable.refl w
  | some r =>
    simp only
    split
    · refine stable_heap w { w with heap := w.heap.filter (·.1 ≠ o), freed := w.freed + 1 } rfl rfl ?_
      intro o' r' h
      exact ⟨r', getRq_filter_ne w o o' _ r' h, rfl⟩
    · exact stable_setRq w o r _ hr rfl

theorem stable_updCli (w : World) (ci : Nat) (f : Client → Client) (hf : ∀ c, (f c).cache.length = c.cache.length) :
    Stable w (updCli w ci f) := by
  refine ⟨?_, ?_, ?_, ?_, by unfold updCli; split <;> rfl⟩
  · intro o r' h; rw [Refs.getRq_updCli] at h; exact ⟨r', h, rfl⟩
  · intro cj c h
    by_cases hj : cj = ci
    · subst hj; exact ⟨f c, Refs.getCli_updCli_same w cj f c h⟩
    · exact ⟨c, by rw [Refs.getCli_updCli_other w ci cj f hj]; exact h⟩
  · intro cj c' h
    by_cases hj : cj = ci
    · subst hj
      cases hc : getCli w cj with
      | none =>
        have : updCli w cj f = w := by unfold updCli; unfold getCli at hc; rw [hc]
        rw [this, hc] at h; cases h
      | some c =>
        rw [Refs.getCli_updCli_same w cj f c hc] at h
        cases h
        exact ⟨c, rfl, hf c⟩
    · rw [Refs.getCli_updCli_other w ci cj f hj] at h; exact ⟨c', h, rfl⟩
  · intro si s' h; rw [Refs.getSrv_updCli] at h; exact ⟨s', h, rfl, id⟩

theorem stable_updSrv (w : World) (si : Nat) (f : Server → Server) (hf : ∀ s, (f s).slots.length = s.slots.length)
    (hn : ∀ s, s.nextid ≤ 256 → (f s).nextid ≤ 256) : Stable w (updSrv w si f) := by
  refine ⟨?_, ?_, ?_, ?_, by unfold updSrv; split <;> rfl⟩
  · intro o r' h; rw [Refs.getRq_updSrv] at h; exact ⟨r', h, rfl⟩
  · intro ci c h; exact ⟨c, by rw [Refs.getCli_updSrv]; exact h⟩
  · intro ci c' h; rw [Refs.getCli_updSrv] at h; exact ⟨c', h, rfl⟩
  · intro sj s' hh
    by_cases hj : sj = si
    · subst hj
      cases hs : getSrv w sj with
      | none =>
        have : updSrv w sj f = w := by unfold updSrv; unfold getSrv at hs; rw [hs]
        rw [this, hs] at hh; cases hh
      | some s =>
        rw [Refs.getSrv_updSrv_same w sj f s hs] at hh
        cases hh
        exact ⟨s, rfl, hf s, hn s⟩
    · rw [getSrv_updSrv_other w si sj f hj] at hh; exact ⟨s', hh, rfl, id⟩

/-! ### the composite steps are stable -/

theorem stable_newrqref (w : World) (o : Nat) : Stable w (newrqref w o) := stable_updRq w o _ (fun _ => rfl)

theorem stable_freerqoutdata (w : World) (si i : Nat) : Stable w (freerqoutdata w si i) := by
  unfold freerqoutdata
  cases hs : getSrv w si with
  | none => exact Stable.refl w
  | some s =>
    simp only
    refine Stable.trans (b := match (slotOf s i).rq with
        | some o => freerq (updRq w o fun r => { r with buf := none, to := none }) o
        | none => w) ?_ (stable_updSrv _ si _ (fun s => by simp) (fun _ h => h))
    cases (slotOf s i).rq with
    | none => exact Stable.refl w
    | some o =>
      show Stable w (freerq (updRq w o fun r => { r with buf := none, to := none }) o)
      exact Stable.trans (stable_updRq w o (fun r => { r with buf := none, to := none }) (fun _ => rfl)) (stable_freerq _ o)

theorem stable_cancelOutstanding (w : World) (o : Nat) : Stable w (cancelOutstanding w o) := by
  unfold cancelOutstanding
  cases getRq w o with
  | none => exact Stable.refl w
  | some r =>
    simp only
    cases r.to with
    | none => exact Stable.refl w
    | some si =>
      simp only
      cases getSrv w si with
      | none => exact Stable.refl w
      | some s =>
        simp only
        split
        · exact stable_freerqoutdata w si r.newid
        · exact Stable.refl w

theorem stable_removeclientrq (w : World) (ci i : Nat) : Stable w (removeclientrq w ci i) := by
  unfold removeclientrq
  cases getCli w ci with
  | none => exact Stable.refl w
  | some c =>
    simp only
    cases c.cache.getD i none with
    | none => exact Stable.refl w
    | some o =>
      simp only
      exact Stable.trans (Stable.trans (stable_cancelOutstanding w o) (stable_updCli _ ci _ (fun c => by simp))) (stable_freerq _ o)

theorem stable_purgeFrom (fuel : Nat) (w : World) (ci i : Nat) : Stable w (purgeFrom w ci fuel i) := by
  induction fuel generalizing w i with
  | zero => exact Stable.refl w
  | succ n ih =>
    unfold purgeFrom
    simp only
    refine Stable.trans ?_ (ih _ (i + 1))
    cases getCli w ci with
    | none => exact Stable.refl w
    | some c =>
      simp only
      cases c.cache.getD i none with
      | none => exact Stable.refl w
      | some o =>
        simp only
        cases getRq w o with
        | none => exact Stable.refl w
        | some r =>
          simp only
          repeat' split
          all_goals first | exact stable_removeclientrq w ci i | exact Stable.refl w

theorem stable_purgedupcache (w : World) (ci : Nat) : Stable w (purgedupcache w ci) := stable_purgeFrom 256 w ci 0

theorem stable_sendreply (w : World) (o : Nat) : Stable w (sendreply w o) := by
  unfold sendreply
  cases hr : getRq w o with
  | none => exact Stable.refl w
  | some r =>
    simp only
    cases hfrm : r.frm with
    | none => exact stable_freerq w o
    | some ci =>
      simp only
      have h1 := stable_setRq w o r { r with replybuf := replyBytes w r (secretOfCli w ci), msg := none } hr rfl
      rw [hfrm] at h1
      cases hb : replyBytes w r (secretOfCli w ci) with
      | none =>
        simp only [hb] at h1 ⊢
        exact Stable.trans h1 (stable_freerq _ o)
      | some b =>
        simp only [hb] at h1 ⊢
        split
        · exact Stable.trans h1 (stable_updCli _ ci _ (fun _ => rfl))
        · exact Stable.trans h1 (stable_freerq _ o)

theorem stable_respond (w : World) (o : Nat) (code : UInt8) (a : Option Radmsg.Tlv) (ma : Bool) : Stable w (respond w o code a ma) := by
  unfold respond
  cases hr : getRq w o with
  | none => exact Stable.refl w
  | some r =>
    simp only
    cases r.msg with
    | none => exact Stable.refl w
    | some m =>
      simp only
      refine Stable.trans ?_ (stable_sendreply _ o)
      refine Stable.trans ?_ (stable_newrqref _ o)
      exact stable_setRq w o r _ hr rfl

theorem stable_addclientrq (w : World) (o : Nat) : Stable w (addclientrq w o).1 := by
  unfold addclientrq
  cases getRq w o with
  | none => exact Stable.refl w
  | some rq =>
    simp only
    cases rq.frm with
    | none => exact Stable.refl w
    | some ci =>
      simp only
      cases getCli w ci with
      | none => exact Stable.refl w
      | some c =>
        simp only
        cases c.cache.getD rq.rqid.toNat none with
        | none =>
          simp only [Bool.false_eq_true, if_false]
          exact Stable.trans (stable_newrqref w o) (stable_updCli _ ci _ (fun c => by simp))
        | some o' =>
          simp only
          cases getRq w o' with
          | none =>
            simp only [Bool.false_eq_true, if_false]
            exact Stable.trans (stable_newrqref w o) (stable_updCli _ ci _ (fun c => by simp))
          | some r =>
            simp only
            split
            · simp only [if_true]
              split
              · exact Stable.trans (stable_newrqref w o') (stable_sendreply _ o')
              · exact Stable.refl w
            · simp only [Bool.false_eq_true, if_false]
              exact Stable.trans (Stable.trans (stable_removeclientrq w ci _) (stable_newrqref _ o)) (stable_updCli _ ci _ (fun c => by simp))

theorem stable_same (w w' : World) (hh : w'.heap = w.heap) (hs : w'.servers = w.servers) (hc : w'.clients = w.clients)
    (ho : w'.nextOrd = w.nextOrd := by rfl) : Stable w w' :=
  stable_heap w w' hs hc (fun o r' h => ⟨r', by unfold getRq at *; rw [← hh]; exact h, rfl⟩) ho

theorem stable_choosesrv (w : World) (l : List Nat) : Stable w (choosesrv w l).1 := by
  unfold choosesrv
  simp only
  generalize (l.zip (Choose.choose (l.map (chooseEntry w))).2) = ps
  induction ps generalizing w with
  | nil => exact Stable.refl w
  | cons p t ih =>
    simp only [List.foldl_cons]
    refine Stable.trans ?_ (ih _)
    cases p.2 with
    | none => exact Stable.refl w
    | some x => exact stable_updSrv w p.1 _ (fun _ => rfl) (fun _ h => h)

/-! ### the composite steps keep the invariant -/

theorem purgeFrom_inv (fuel : Nat) (w : World) (fl : Nat → Nat) (ci i : Nat) (h : Inv w fl) : Inv (purgeFrom w ci fuel i) fl := by
  induction fuel generalizing w i with
  | zero => exact h
  | succ n ih =>
    unfold purgeFrom
    simp only
    apply ih
    cases getCli w ci with
    | none => exact h
    | some c =>
      simp only
      cases c.cache.getD i none with
      | none => exact h
      | some o =>
        simp only
        cases getRq w o with
        | none => exact h
        | some r =>
          simp only
          repeat' split
          all_goals first | exact removeclientrq_inv w fl ci i h | exact h

theorem purgedupcache_inv (w : World) (fl : Nat → Nat) (ci : Nat) (h : Inv w fl) : Inv (purgedupcache w ci) fl :=
  purgeFrom_inv 256 w fl ci 0 h

theorem choosesrv_inv (w : World) (fl : Nat → Nat) (l : List Nat) (h : Inv w fl) : Inv (choosesrv w l).1 fl := by
  unfold choosesrv
  simp only
  generalize (l.zip (Choose.choose (l.map (chooseEntry w))).2) = ps
  induction ps generalizing w with
  | nil => exact h
  | cons p t ih =>
    simp only [List.foldl_cons]
    apply ih
    cases p.2 with
    | none => exact h
    | some x => exact updSrv_noslots_inv w fl p.1 _ (fun _ => rfl) h

theorem same_inv (w w' : World) (fl : Nat → Nat) (hh : w'.heap = w.heap) (hs : w'.servers = w.servers) (hc : w'.clients = w.clients)
    (hu : w'.udpPending = w.udpPending) (h : Inv w fl) : Inv w' fl := by
  apply inv_move w w' fl fl h
  · intro o; unfold getRq; rw [hh]
  · intro o; unfold holders; rw [hs, hc, hu]

/-- **answering a request oneself** (`respond`): the reply takes its own reference, which `sendreply` hands to the
    client's reply queue (or drops when the reply cannot be built); the caller's reference is untouched -/
theorem respond_inv (w : World) (fl : Nat → Nat) (o : Nat) (code : UInt8) (a : Option Radmsg.Tlv) (ma : Bool) (h : Inv w fl) :
    Inv (respond w o code a ma) fl := by
  unfold respond
  cases hr : getRq w o with
  | none => exact h
  | some r =>
    simp only
    cases hm : r.msg with
    | none => exact h
    | some m =>
      simp only
      have key : ∀ r1 : Rq, r1.refs = r.refs → Inv (sendreply (newrqref (setRq w o r1) o) o) fl := by
        intro r1 hrefs
        have h1 := setRq_inv w fl o r r1 hr hrefs h
        have hl : (getRq (setRq w o r1) o).isSome := by rw [getRq_setRq_same w o r r1 hr]; rfl
        have h2 := newrqref_inv _ fl o h1 hl
        have h3 := sendreply_inv _ _ o h2 (by simp [one])
        exact inv_congr_fl h3 (fun x => by omega)
      exact key _ rfl

/-- whatever a duplicate cache points at is alive -/
theorem cache_entry_live (w : World) (fl : Nat → Nat) (ci i o' : Nat) (c : Client) (h : Inv w fl)
    (hc : getCli w ci = some c) (hi : i < c.cache.length) (he : c.cache[i] = some o') : (getRq w o').isSome := by
  cases hr : getRq w o' with
  | some r => rfl
  | none =>
    exfalso
    have h0 := (h.dead o' hr).1
    have h1 := holders_cacheSet w ci i none c o' hc hi
    simp only [he, beq_self_eq_true, if_true] at h1
    have : ((none : Option Nat) == some o') = false := rfl
    simp only [this, Bool.false_eq_true, if_false] at h1
    omega

theorem getD_some_get {α} (l : List α) (i : Nat) (d x : α) (hi : i < l.length) (h : l.getD i d = x) : l[i] = x := by
  rw [List.getD_eq_getElem?_getD, List.getElem?_eq_getElem hi] at h
  simpa using h

/-- **entering a request in the duplicate cache** (`addclientrq`): a retransmission changes nothing but, when the answer is
    known, queues the cached request once more (with a reference of its own); a new request replaces what the identifier held
    (released through `removeclientrq`) and the cache takes its own reference. The caller's reference is untouched. -/
theorem addclientrq_inv (w : World) (fl : Nat → Nat) (o : Nat) (h : Inv w fl) (wf : WF w) (hfl : 1 ≤ fl o) :
    Inv (addclientrq w o).1 fl := by
  have hlive : (getRq w o).isSome := by
    cases hr : getRq w o with
    | some r => rfl
    | none => have := (h.dead o hr).2; omega
  unfold addclientrq
  cases hr : getRq w o with
  | none => exact h
  | some rq =>
    simp only
    cases hfrm : rq.frm with
    | none => exact h
    | some ci =>
      simp only
      cases hc : getCli w ci with
      | none => exact h
      | some c =>
        simp only
        have hlen := wf.cache ci c hc
        have hid : rq.rqid.toNat < c.cache.length := by rw [hlen]; exact UInt8.toNat_lt _
        -- filling the (empty) entry with a fresh reference on `o`
        have fill : ∀ (w1 : World) (c1 : Client), Inv w1 fl → getCli w1 ci = some c1 → c1.cache.length = 256 →
            c1.cache.getD rq.rqid.toNat none = none → (getRq w1 o).isSome →
            Inv (updCli (newrqref w1 o) ci fun c => { c with cache := c.cache.set rq.rqid.toNat (some o) }) fl := by
          intro w1 c1 h1 hc1 hl1 he1 hlive1
          have hi1 : rq.rqid.toNat < c1.cache.length := by rw [hl1]; exact UInt8.toNat_lt _
          have h2 := newrqref_inv w1 fl o h1 hlive1
          have h3 := cacheFill_inv (newrqref w1 o) _ ci rq.rqid.toNat o c1 h2 (by exact hc1) hi1
            (getD_some_get _ _ _ _ hi1 he1) (by simp [one])
          exact inv_congr_fl h3 (fun x => by omega)
        cases he : c.cache.getD rq.rqid.toNat none with
        | none =>
          simp only [Bool.false_eq_true, if_false]
          exact fill w c h hc hlen he hlive
        | some o' =>
          simp only
          have hlive' := cache_entry_live w fl ci rq.rqid.toNat o' c h hc hid (getD_some_get _ _ _ _ hid he)
          cases hr' : getRq w o' with
          | none => rw [hr'] at hlive'; cases hlive'
          | some r =>
            simp only
            split
            · simp only [if_true]
              split
              · have h2 := newrqref_inv w fl o' h (by rw [hr']; rfl)
                have h3 := sendreply_inv _ _ o' h2 (by simp [one])
                exact inv_congr_fl h3 (fun x => by omega)
              · exact h
            · simp only [Bool.false_eq_true, if_false]
              obtain ⟨c', hc', _, hl', he', _⟩ := getCli_removeclientrq w ci rq.rqid.toNat c hc
              have h1 := removeclientrq_inv w fl ci rq.rqid.toNat h
              have hlive1 : (getRq (removeclientrq w ci rq.rqid.toNat) o).isSome := by
                cases hr1 : getRq (removeclientrq w ci rq.rqid.toNat) o with
                | some r => rfl
                | none => have := (h1.dead o hr1).2; omega
              exact fill _ c' h1 hc' (by rw [hl', hlen]) he' hlive1

/-! ### `radsrv`, stage by stage -/

/-- the state while `radsrv` runs: every count is right given ONE reference on `o` held by the running code -/
structure Run (w : World) (fl : Nat → Nat) (o : Nat) : Prop where
  inv : Inv w (fun x => fl x + one o x)
  wf : WF w

theorem Run.step {w w' : World} {fl : Nat → Nat} {o : Nat} (h : Run w fl o) (hi : Inv w' (fun x => fl x + one o x)) (hs : Stable w w') :
    Run w' fl o := ⟨hi, hs.wf h.wf⟩

theorem run_exit {w : World} {fl : Nat → Nat} {o : Nat} (h : Run w fl o) : Inv (freerq w o) fl :=
  inv_congr_fl (freerq_inv w _ o h.inv (by simp [one])) (fun x => by omega)

theorem run_rmexit {w : World} {fl : Nat → Nat} {o : Nat} (h : Run w fl o) (id : Nat) : Inv (freerq (rmclientrq w o id) o) fl :=
  inv_congr_fl (freerq_inv _ _ o (rmclientrq_inv w _ o id h.inv) (by simp [one])) (fun x => by omega)

theorem run_respond {w : World} {fl : Nat → Nat} {o : Nat} (h : Run w fl o) (code : UInt8) (a : Option Radmsg.Tlv) (ma : Bool) :
    Run (respond w o code a ma) fl o :=
  h.step (respond_inv w _ o code a ma h.inv) (stable_respond w o code a ma)

theorem run_updRq {w : World} {fl : Nat → Nat} {o : Nat} (h : Run w fl o) (f : Rq → Rq) (hr : ∀ r, (f r).refs = r.refs)
    (hf : ∀ r, (f r).frm = r.frm) : Run (updRq w o f) fl o :=
  h.step (updRq_inv w _ o f hr h.inv) (stable_updRq w o f hf)

theorem run_sendrq {w : World} {fl : Nat → Nat} {o : Nat} (h : Run w fl o) : Inv (sendrq w o) fl :=
  inv_congr_fl (sendrq_inv w _ o h.inv h.wf (by simp [one])) (fun x => by omega)

theorem run_takeRnd {w : World} {fl : Nat → Nat} {o : Nat} (h : Run w fl o) (n : Nat) : Run (takeRnd w n).1 fl o := by
  unfold takeRnd
  cases w.rnds with
  | nil => exact h
  | cons r rest => exact h.step (same_inv w _ _ rfl rfl rfl rfl h.inv) (stable_same w _ rfl rfl rfl)

/-- the last stage: whatever the request holds and whichever way the stage leaves, the reference is consumed once -/
theorem radsrvForward_inv (w : World) (fl : Nat → Nat) (o : Nat) (cc : CliConf) (m0 : Radmsg.Msg) (as3 : List Radmsg.Tlv) (ttlres : Int)
    (si : Nat) (h : Run w fl o) : Inv (radsrvForward w o cc m0 as3 ttlres si) fl := by
  unfold radsrvForward
  simp only
  split
  · exact run_exit h
  · generalize hp : (if m0.code = 4 then (w, Radmsg.zeros 16) else takeRnd w 16) = pr
    have hrun : Run pr.1 fl o := by
      rw [← hp]; split
      · exact h
      · exact run_takeRnd h 16
    split
    · apply run_rmexit
      apply run_updRq hrun <;> (intro r; rfl)
    · split
      · exact run_rmexit hrun _
      · apply run_sendrq
        apply run_updRq hrun <;> (intro r; rfl)

theorem run_choosesrv {w : World} {fl : Nat → Nat} {o : Nat} (h : Run w fl o) (l : List Nat) : Run (choosesrv w l).1 fl o :=
  h.step (choosesrv_inv w _ l h.inv) (stable_choosesrv w l)

theorem radsrvRoute_inv (w : World) (fl : Nat → Nat) (o : Nat) (cc : CliConf) (m0 : Radmsg.Msg) (as3 : List Radmsg.Tlv) (ttlres : Int)
    (uname : Bytes) (h : Run w fl o) : Inv (radsrvRoute w o cc m0 as3 ttlres uname) fl := by
  unfold radsrvRoute
  simp only
  split
  · exact run_exit h
  · have hrun : ∀ pr : World × Option Nat, (pr = (w, none) ∨ ∃ l, pr = choosesrv w l) → Run pr.1 fl o := by
      intro pr hpr
      rcases hpr with rfl | ⟨l, rfl⟩
      · exact h
      · exact run_choosesrv h l
    have hsrc : ∀ (x : Option (List Nat)), ((match x with | some l => choosesrv w l | none => (w, none)) = (w, none) ∨
        ∃ l, (match x with | some l => choosesrv w l | none => (w, none)) = choosesrv w l) := by
      intro x; cases x with
      | none => exact Or.inl rfl
      | some l => exact Or.inr ⟨l, rfl⟩
    split
    · split
      · exact run_exit (run_respond (hrun _ (hsrc _)) _ _ _)
      · exact run_exit (run_respond (hrun _ (hsrc _)) _ _ _)
      · exact run_exit (hrun _ (hsrc _))
    · exact radsrvForward_inv _ fl o cc m0 as3 ttlres _ (hrun _ (hsrc _))

theorem radsrvRewrite_inv (w : World) (fl : Nat → Nat) (o : Nat) (cc : CliConf) (m0 : Radmsg.Msg) (h : Run w fl o) :
    Inv (radsrvRewrite w o cc m0) fl := by
  unfold radsrvRewrite
  simp only
  repeat' first
    | (apply run_exit; (repeat' first | exact h | apply run_respond | apply run_updRq | (intro r; rfl)); done)
    | (apply run_rmexit; (repeat' first | exact h | apply run_respond | apply run_updRq | (intro r; rfl)); done)
    | (apply radsrvRoute_inv; (repeat' first | exact h | apply run_respond | apply run_updRq | (intro r; rfl)); done)
    | split

theorem run_purge {w : World} {fl : Nat → Nat} {o : Nat} (h : Run w fl o) (ci : Nat) : Run (purgedupcache w ci) fl o :=
  h.step (purgedupcache_inv w _ ci h.inv) (stable_purgedupcache w ci)

theorem run_addclientrq {w : World} {fl : Nat → Nat} {o : Nat} (h : Run w fl o) : Run (addclientrq w o).1 fl o :=
  h.step (addclientrq_inv w _ o h.inv h.wf (by simp [one])) (stable_addclientrq w o)

attribute [local irreducible] purgedupcache purgeFrom addclientrq respond radsrvRewrite in
theorem radsrvCore_inv (w : World) (fl : Nat → Nat) (o ci : Nat) (cc : CliConf) (m0 : Radmsg.Msg) (h : Run w fl o) :
    Inv (radsrvCore w o ci cc m0) fl := by
  unfold radsrvCore
  simp only
  have h0 : Run (updRq w o fun r => { r with msg := some m0, rqid := m0.id, rqauth := m0.auth }) fl o :=
    run_updRq h _ (fun _ => rfl) (fun _ => rfl)
  have h1 := run_addclientrq (run_purge h0 ci)
  repeat' first
    | (apply run_exit; (repeat' first | exact h0 | exact h1 | apply run_respond); done)
    | (apply radsrvRewrite_inv; (repeat' first | exact h0 | exact h1 | apply run_respond); done)
    | split

attribute [local irreducible] radsrvCore Radmsg.parse in
/-- **C17 for `radsrv` as a whole.** For every request buffer, every configuration and every state in which the counts are
    right and the transport holds one reference on the request object `o`: after `radsrv` returns the counts are right with
    NO reference left in flight — the one handed in has gone to exactly one outstanding slot or one reply queue, or was dropped. -/
theorem radsrv_inv (w : World) (fl : Nat → Nat) (o : Nat) (h : Run w fl o) : Inv (radsrv w o).1 fl := by
  unfold radsrv
  cases hr : getRq w o with
  | none => have := (h.inv.dead o hr).2; simp [one] at this
  | some rq0 =>
    simp only
    have h0 : Run (setRq w o { rq0 with buf := none }) fl o :=
      h.step (setRq_inv w _ o rq0 _ hr rfl h.inv) (stable_setRq w o rq0 _ hr rfl)
    repeat' first
      | exact run_exit h0
      | exact radsrvCore_inv _ fl o _ _ _ h0
      | split

end Rsp.Props.C17
