/-
  Property C06 (and the parser of C04/C05) — round trip. What `radmsg2buf` lays out is what
  `buf2radmsg` reads back: for EVERY message whose attribute values fit an attribute (≤ 253
  octets, which `radmsg_add` enforces — `addOk`) and whose length fits the 16-bit field.
  The two functions are tied to the C code separately (serialize and parse correspondence);
  this file composes the two models.
-/
import Rsp.Props.C06
namespace Rsp.Radmsg
open Rsp

theorem u8_len2 (n : Nat) (h : n ≤ 253) : (UInt8.ofNat ((n + 2) % 256)).toNat = n + 2 := by
  have : (n + 2) % 256 = n + 2 := Nat.mod_eq_of_lt (by omega)
  rw [this]
  simp [UInt8.toNat_ofNat']
  omega

theorem parseAttrs_attrsBytes (H : Hashes) (buf : Bytes) (code : UInt8) (rq : Option Bytes)
    (as : List Tlv) (hok : ∀ a ∈ as, a.v.length ≤ maxAttrValueLen) (fuel : Nat) (hf : as.length < fuel)
    (off : Nat) (st : ParseSt) :
    parseAttrs H buf code none rq fuel off (attrsBytes as) st =
      some { attrs := as.reverse ++ st.attrs, macInvalid := st.macInvalid } := by
  induction as generalizing fuel off st with
  | nil =>
    cases fuel with
    | zero => omega
    | succ f => simp [attrsBytes, parseAttrs]
  | cons a t ih =>
    cases fuel with
    | zero => omega
    | succ f =>
      have ha : a.v.length ≤ 253 := hok a List.mem_cons_self
      have hb : attrsBytes (a :: t) = a.t :: UInt8.ofNat ((a.v.length + 2) % 256) :: (a.v ++ attrsBytes t) := by
        simp [attrsBytes, tlv2buf]
      rw [hb]
      simp only [parseAttrs, u8_len2 _ ha]
      have h1 : ¬ a.v.length + 2 < 2 := by omega
      simp only [h1, if_false, Nat.add_sub_cancel]
      rw [List.drop_left, List.take_left]
      rw [ih (fun x hx => hok x (List.mem_cons_of_mem _ hx)) f (by simp at hf; omega)]
      simp [attrInvalid]

theorem attrs_length_le (as : List Tlv) : as.length ≤ (attrsBytes as).length := by
  rw [Rsp.Props.C06.attrsBytes_length]
  induction as with
  | nil => simp
  | cons a t ih => simp only [List.length_cons, List.map_cons, List.sum_cons]; omega

/-- Round trip, every message: what `radmsg2buf` lays out (before signing) is accepted by
    `buf2radmsg` without a secret and read back as the same code, identifier, authenticator
    and attribute list, in order. -/
theorem parse_rawPacket (H : Hashes) (m : Msg) (rq : Option Bytes) (ha : m.auth.length = 16)
    (hok : ∀ a ∈ m.attrs, a.v.length ≤ maxAttrValueLen) (hlen : 20 + attrsSize m < 65536) :
    parse H (rawPacket m) none rq =
      some { code := m.code, id := m.id, auth := m.auth, attrs := m.attrs, macInvalid := false } := by
  have hL := Rsp.Props.C06.rawPacket_length m ha
  have hA := Rsp.Props.C06.rawPacket_auth m ha
  have h4 : (m.code :: m.id :: beEnc 2 (20 + attrsSize m)).length = 4 := by simp
  have hlenfield : beVal (((rawPacket m).drop 2).take 2) = 20 + attrsSize m := by
    have : ((rawPacket m).drop 2).take 2 = beEnc 2 (20 + attrsSize m) := by
      unfold rawPacket
      simp only [List.cons_append, List.drop_succ_cons, List.drop_zero, List.append_assoc]
      exact List.take_left' (by simp)
    rw [this, beVal_beEnc]; exact Nat.mod_eq_of_lt (by simpa using hlen)
  have hdrop : (rawPacket m).drop 20 = attrsBytes m.attrs := by
    unfold rawPacket
    have : (m.code :: m.id :: beEnc 2 (20 + attrsSize m) ++ m.auth).length = 20 := by simp [ha]
    exact List.drop_left' this
  have hc : (rawPacket m).getD 0 0 = m.code := by simp [rawPacket]
  have hi : (rawPacket m).getD 1 0 = m.id := by simp [rawPacket]
  unfold parse
  rw [hL, hlenfield, hdrop, hA, hc, hi]
  simp only [ne_eq, not_true_eq_false, if_false, acctAuthBad, respAuthBad]
  have hal := attrs_length_le m.attrs
  have hsz : (attrsBytes m.attrs).length = attrsSize m := by rw [Rsp.Props.C06.attrsBytes_length]; rfl
  rw [parseAttrs_attrsBytes H _ _ rq m.attrs hok _ (by omega)]
  simp

/-- Non-vacuity: a message with an empty-valued attribute and a vendor one. -/
example : parse ⟨fun _ => [], fun _ _ => []⟩
    (rawPacket { code := 1, id := 7, auth := zeros 16, attrs := [⟨1, []⟩, ⟨26, [0, 0, 0, 9, 1, 3, 65]⟩] }) none none =
    some { code := 1, id := 7, auth := zeros 16, attrs := [⟨1, []⟩, ⟨26, [0, 0, 0, 9, 1, 3, 65]⟩] } :=
  parse_rawPacket _ _ _ (by decide) (by decide) (by decide)

end Rsp.Radmsg
