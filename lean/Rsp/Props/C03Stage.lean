/-
  Property C03 at the place `radsrv` uses it: the User-Password stage of `World.radsrvForward`.
-/
import Rsp.Props.C03
import Rsp.Model.World

/-! ### where `radsrv` uses it (`World.radsrvForward`) -/
namespace Rsp.Props.C03
open Rsp Rsp.Crypt Rsp.Spec Rsp.World

theorem takeRnd_servers (w : World) (n : Nat) : (takeRnd w n).1.servers = w.servers ∧ (takeRnd w n).1.H = w.H := by
  unfold takeRnd; split <;> exact ⟨rfl, rfl⟩

attribute [local irreducible] World.chapComplete World.loopPrevents World.rmclientrq World.freerq in
/-- **C03 (at the request).** a request whose User-Password has a length `pwdrecrypt` cannot handle (not 16..128 octets in whole
    blocks) is not forwarded: no identifier of any server is taken for it -/
theorem forward_bad_password_drops (w : World) (o : Nat) (cc : CliConf) (m0 : Radmsg.Msg) (as3 : List Radmsg.Tlv) (ttlres : Int) (si pi : Nat)
    (hH : ∀ x, (w.H.md5 x).length = 16)
    (hp : (chapComplete as3 m0.auth).findIdx? (·.t = 2) = some pi)
    (hv : pwdLenValid ((chapComplete as3 m0.auth).getD pi { t := 2, v := [] }).v.length = false) :
    (radsrvForward w o cc m0 as3 ttlres si).servers = w.servers := by
  have hsrv : ∀ X : World, ∀ i, (freerq (rmclientrq X o i) o).servers = X.servers := by
    intro X i
    rw [show (freerq (rmclientrq X o i) o).servers = (rmclientrq X o i).servers from by
          unfold freerq; split
          · rfl
          · split
            · rfl
            · unfold setRq; rfl]
    unfold rmclientrq
    cases getRq X o with
    | none => rfl
    | some r =>
      simp only
      cases r.frm with
      | none => rfl
      | some ci =>
        simp only
        cases getCli X ci with
        | none => rfl
        | some c =>
          simp only
          cases c.cache.getD i none with
          | none => rfl
          | some o' =>
            simp only
            have : ∀ Y : World, (freerq Y o').servers = Y.servers := by
              intro Y; unfold freerq; split
              · rfl
              · split
                · rfl
                · unfold setRq; rfl
            rw [this]
            unfold updRq updCli
            cases X.clients[ci]? <;> rfl
  unfold radsrvForward
  simp only
  split
  · unfold freerq; split
    · rfl
    · split
      · rfl
      · unfold setRq; rfl
  · simp only [hp]
    have hH' : (if m0.code = 4 then (w, Radmsg.zeros 16) else takeRnd w 16).1.H = w.H := by
      split
      · rfl
      · exact (takeRnd_servers w 16).2
    have hS' : (if m0.code = 4 then (w, Radmsg.zeros 16) else takeRnd w 16).1.servers = w.servers := by
      split
      · rfl
      · exact (takeRnd_servers w 16).1
    rw [hH', pwdrecrypt_rejects w.H.md5 hH _ _ _ _ _ _ _ hv]
    simp only
    rw [hsrv]
    unfold updRq
    exact hS'

end Rsp.Props.C03
