/-
  Property C12 — requests are retried, abandoned and counted as lost exactly as
  configured. Theorems about the per-slot decision of the clientwr loop
  (`slotDecision`, used verbatim by the World model) for EVERY schedule of passes.
-/
import Rsp.Model.World
namespace Rsp.Props.C12
open Rsp Rsp.World

/-- the tries limit: a probe is sent once, a request RetryCount+1 times -/
def limit (isProbe : Bool) (rc : Nat) : Nat := if isProbe then 1 else rc + 1

/-- One slot followed through a schedule of writer passes at the given times
    (no connection reset, no reply). Returns the transmission times and the final
    slot state (`none` = abandoned and released). -/
def run (isProbe : Bool) (rc ri : Nat) : List Nat → Slot → List Nat → List Nat × Option Slot
  | [], sl, sent => (sent.reverse, some sl)
  | t :: ts, sl, sent =>
    match slotDecision false t sl isProbe rc ri with
    | .wait => run isProbe rc ri ts sl sent
    | .dropProbe => (sent.reverse, none)
    | .abandon => (sent.reverse, none)
    | .send tr ex => run isProbe rc ri ts { sl with tries := tr, expiry := ex } (t :: sent)

/-- invariant of a run: `tries` transmissions so far, the last one at `expiry - ri` -/
structure RunInv (isProbe : Bool) (rc ri : Nat) (sl : Slot) (sent : List Nat) : Prop where
  count : sl.tries = sent.length
  bound : sl.tries ≤ limit isProbe rc
  last : ∀ t, sent.head? = some t → sl.expiry = t + ri
  spaced : sent.Pairwise fun later earlier => earlier + ri ≤ later

theorem slotDecision_false (t : Nat) (sl : Slot) (p : Bool) (rc ri : Nat) :
    slotDecision false t sl p rc ri =
      if t < sl.expiry then .wait
      else if sl.tries = limit p rc then .abandon
      else .send (sl.tries + 1) (t + ri) := by
  unfold slotDecision triesAfterReset limit
  simp

theorem run_inv (isProbe : Bool) (rc ri : Nat) (ts : List Nat) (sl : Slot) (sent : List Nat)
    (h : RunInv isProbe rc ri sl sent) :
    let r := run isProbe rc ri ts sl sent
    r.1.length ≤ limit isProbe rc ∧
    r.1.Pairwise (fun earlier later => earlier + ri ≤ later) := by
  induction ts generalizing sl sent with
  | nil =>
    simp only [run]
    refine ⟨by simp; rw [← h.count]; exact h.bound, ?_⟩
    rw [List.pairwise_reverse]; exact h.spaced
  | cons t ts ih =>
    simp only [run]
    rw [slotDecision_false]
    by_cases hw : t < sl.expiry
    · simp only [hw, if_true]; exact ih sl sent h
    · simp only [hw, if_false]
      by_cases ha : sl.tries = limit isProbe rc
      · simp only [ha, if_true]
        refine ⟨by simp; rw [← h.count, ha]; exact Nat.le_refl _, ?_⟩
        rw [List.pairwise_reverse]; exact h.spaced
      · simp only [ha, if_false]
        apply ih
        refine ⟨by simp [h.count], by have := h.bound; simp; omega, by intro t' ht'; simp at ht'; simp [ht'], ?_⟩
        rw [List.pairwise_cons]
        refine ⟨?_, h.spaced⟩
        intro e he
        -- every earlier transmission is at most the last one, which is at `expiry - ri ≤ t - ri`
        cases hs : sent with
        | nil => rw [hs] at he; simp at he
        | cons t0 rest =>
          have hexp := h.last t0 (by rw [hs]; rfl)
          have hsp := h.spaced
          rw [hs] at he hsp
          rw [List.pairwise_cons] at hsp
          rcases List.mem_cons.mp he with rfl | hmem
          · omega
          · have := hsp.1 e hmem; omega

theorem inv_init (isProbe : Bool) (rc ri : Nat) : RunInv isProbe rc ri {} [] :=
  ⟨rfl, Nat.zero_le _, by intro t h; simp at h, List.Pairwise.nil⟩

/-- **C12 (retry bound and spacing), for every schedule.** However the writer is
    scheduled (any list of pass times, including spurious wake-ups and long
    gaps), a request that gets no reply is handed to the transport at most
    RetryCount+1 times (a Status-Server probe at most once), and successive
    transmissions are at least RetryInterval clock seconds apart. -/
theorem retries_bounded_and_spaced (isProbe : Bool) (rc ri : Nat) (ts : List Nat) :
    let r := run isProbe rc ri ts {} []
    r.1.length ≤ limit isProbe rc ∧ r.1.Pairwise (fun earlier later => earlier + ri ≤ later) :=
  run_inv isProbe rc ri ts {} [] (inv_init isProbe rc ri)

/-- a pass at or after the expiry either retransmits or, when all tries are used, abandons:
    the slot is released (identifier reusable; by C04 a late reply is then ignored) -/
theorem due_pass_acts (t : Nat) (sl : Slot) (p : Bool) (rc ri : Nat) (hdue : sl.expiry ≤ t) :
    (sl.tries = limit p rc → slotDecision false t sl p rc ri = .abandon) ∧
    (sl.tries ≠ limit p rc → slotDecision false t sl p rc ri = .send (sl.tries + 1) (t + ri)) := by
  rw [slotDecision_false]
  have : ¬ t < sl.expiry := by omega
  constructor <;> intro h <;> simp [this, h]

/-- **Exactly RetryCount+1 transmissions.** If the writer runs at (or after) every
    expiry — passes at times 0, ri, 2·ri, … — the request is transmitted exactly
    RetryCount+1 times and then abandoned. -/
theorem exact_count_on_time (rc ri : Nat) :
    let ts := (List.range (rc + 2)).map (· * ri)
    (run false rc ri ts {} []).1.length = rc + 1 ∧ (run false rc ri ts {} []).2 = none := by
  intro ts
  -- generalised: after k transmissions at times 0..(k-1)·ri
  have gen : ∀ (n k : Nat) (sent : List Nat), k + n = rc + 2 → k ≤ rc + 1 → sent.length = k →
      (run false rc ri ((List.range' k n).map (· * ri)) { tries := k, expiry := k * ri } sent).1.length = rc + 1 ∧
      (run false rc ri ((List.range' k n).map (· * ri)) { tries := k, expiry := k * ri } sent).2 = none := by
    intro n
    induction n with
    | zero => intro k sent h1 h2; omega
    | succ n ih =>
      intro k sent h1 h2 h3
      simp only [List.range'_succ, List.map_cons, run]
      rw [slotDecision_false]
      simp only [Nat.lt_irrefl, if_false, limit, Bool.false_eq_true]
      by_cases hk : k = rc + 1
      · simp [hk, h3]
      · simp only [hk, if_false]
        have := ih (k + 1) (k * ri :: sent) (by omega) (by omega) (by simp [h3])
        simpa [Nat.add_mul] using this
  have := gen (rc + 2) 0 [] (by omega) (by omega) rfl
  simpa [ts, List.range_eq_range'] using this

/-- **Connection reset.** In the pass after a connection-oriented server's
    connection was re-established every outstanding request is transmitted again
    whatever its expiry, and the retry it had consumed is given back
    (`tries` is unchanged for a request that had been sent before); a pending
    Status-Server probe is discarded instead. -/
theorem reset_resends_without_consuming (t : Nat) (sl : Slot) (rc ri : Nat) (hsent : 0 < sl.tries) (hle : sl.tries ≤ rc + 1) :
    slotDecision true t sl false rc ri = .send sl.tries (t + ri) ∧
    slotDecision true t sl true rc ri = .dropProbe := by
  unfold slotDecision triesAfterReset
  constructor
  · have h1 : sl.tries - 1 ≠ rc + 1 := by omega
    have h2 : sl.tries - 1 + 1 = sl.tries := by omega
    simp [hsent, h1, h2]
  · simp

/-- loss accounting table: on/minimal count only unanswered probes, off counts requests,
    auto counts requests and an unanswered probe switches status-server off when a
    reply was seen since the last probe -/
theorem loss_table (s : Server) :
    ((s.ss = ssOn ∨ s.ss = ssMinimal) → lossOnAbandon s false = s ∧ lossOnAbandon s true = incLost s) ∧
    (s.ss = ssOff → lossOnAbandon s false = incLost s ∧ lossOnAbandon s true = incLost s) ∧
    (s.ss = ssAuto → lossOnAbandon s false = incLost s ∧
        lossOnAbandon s true = (if s.lastreply ≥ s.laststatsrv then { s with ss := ssOff } else s)) := by
  unfold lossOnAbandon ssOn ssMinimal ssOff ssAuto
  refine ⟨?_, ?_, ?_⟩
  · intro h; rcases h with h | h <;> simp [h]
  · intro h; simp [h]
  · intro h; simp [h]

/-- the unanswered counter saturates at MAX_LOSTRQS -/
theorem incLost_saturates (s : Server) : (incLost s).lost ≤ max s.lost 16 ∧ (s.lost < 16 → (incLost s).lost = s.lost + 1) ∧ (16 ≤ s.lost → (incLost s).lost = s.lost) := by
  unfold incLost
  refine ⟨?_, ?_, ?_⟩
  · split
    · simp only; omega
    · omega
  · intro h; simp [h]
  · intro h; have : ¬ s.lost < 16 := by omega
    simp [this]

/-- **Wake-up bound.** The time the writer decides to sleep until is never later than
    the wake-up time the scan recorded (the earliest pending expiry), so the pass
    that a retransmission or an abandonment needs does happen. -/
theorem capWait_le (timeout x : Nat) (h : timeout ≠ 0) : capWait timeout x ≤ timeout := by
  unfold capWait; split <;> omega

theorem wait_bound_le_timeout (w : World) (si : Nat) (s : Server) (hs : getSrv w si = some s) (ht : s.timeout ≠ 0) :
    (writerWaitBound w si).2 ≤ s.timeout := by
  unfold writerWaitBound
  simp only [hs]
  split
  · exact capWait_le _ _ ht
  · exact capWait_le _ _ ht

/-! ### a late reply -/

open Rsp.World in
/-- **C12 (a late reply is ignored).** once a request was abandoned (or answered) its identifier holds nothing: whatever arrives
    under it afterwards - any octets at all that parse as a message - is neither delivered nor REFUSED (the return value 1 is what
    keeps a stream connection up); the only trace it leaves is that the server is seen to be alive (unanswered count back to 0) -/
theorem late_reply_ignored (w : World) (si : Nat) (buf : Bytes) (s0 : Server) (m : Radmsg.Msg)
    (hs : getSrv w si = some s0) (hempty : (slotOf s0 (buf.getD 1 0).toNat).rq = none)
    (hp : Radmsg.parse w.H buf (some s0.conf.secret) none = some m) :
    replyh w si buf = (updSrv w si fun s => { s with lost := 0 }, 1) := by
  unfold replyh
  simp only [hs, hempty, Option.bind]
  have hH : (updSrv w si fun s => { s with lost := 0 }).H = w.H := by
    unfold updSrv; split <;> rfl
  rw [hH, hp]
  simp only
  split <;> rfl

end Rsp.Props.C12
