/-
  Property C06 — every emitted packet is well-formed and authenticated for its
  recipient. Serializer theorems (radmsg2buf), for every hash function with
  16-octet output; the emission sites of the World model all go through it.
-/
import Rsp.Lemmas.Serialize
import Rsp.Model.World
namespace Rsp.Props.C06
open Rsp Rsp.Radmsg Rsp.Spec

theorem tlv2buf_length (a : Tlv) : (tlv2buf a).length = 2 + a.v.length := by
  simp [tlv2buf]; omega

theorem attrsBytes_length (as : List Tlv) : (attrsBytes as).length = (as.map fun a => 2 + a.v.length).sum := by
  induction as with
  | nil => rfl
  | cons a t ih =>
    simp only [attrsBytes, List.flatMap_cons, List.length_append, tlv2buf_length, List.map_cons, List.sum_cons]
    unfold attrsBytes at ih; rw [ih]

theorem lastMsgAuthPos_ge (as : List Tlv) (off : Nat) (acc : Option Nat) (pos : Nat)
    (hacc : ∀ p, acc = some p → p + 16 ≤ off ∨ True) (h : lastMsgAuthPos as off acc = some pos) :
    (acc = some pos) ∨ off + 2 ≤ pos := by
  induction as generalizing off acc with
  | nil => left; simpa [lastMsgAuthPos] using h
  | cons a t ih =>
    simp only [lastMsgAuthPos] at h
    have := ih (off + 2 + a.v.length) _ (fun _ _ => Or.inr trivial) h
    rcases this with h1 | h1
    · by_cases h80 : a.t = 80
      · simp only [h80, if_true] at h1
        right; have := Option.some.inj h1; omega
      · simp only [h80, if_false] at h1; left; exact h1
    · right; omega

theorem rawPacket_length (m : Msg) (ha : m.auth.length = 16) :
    (rawPacket m).length = 20 + attrsSize m := by
  simp [rawPacket, attrsBytes_length, attrsSize, ha]; omega

theorem rawPacket_auth (m : Msg) (ha : m.auth.length = 16) : ((rawPacket m).drop 4).take 16 = m.auth := by
  unfold rawPacket
  have : (m.code :: m.id :: beEnc 2 (20 + attrsSize m)).length = 4 := by simp
  rw [List.append_assoc, List.drop_left' this, List.take_left' ha]

section
variable (H : Hashes) (hmd5 : ∀ x, (H.md5 x).length = 16) (hhmac : ∀ k x, (H.hmacMd5 k x).length = 16)
include hmd5 hhmac

omit hmd5 in
theorem stage1_props (m : Msg) (sec b1 : Bytes) (ha : m.auth.length = 16) (h : stage1 H m sec = some b1) :
    b1.length = (rawPacket m).length ∧ b1.take 4 = (rawPacket m).take 4 ∧ (b1.drop 4).take 16 = m.auth ∧
    (∀ pos, lastMsgAuthPos m.attrs 20 none = some pos → macOk H b1 pos sec = true) := by
  unfold stage1 at h
  have hlen := rawPacket_length m ha
  cases hp : lastMsgAuthPos m.attrs 20 none with
  | none =>
    simp only [hp] at h; cases h
    exact ⟨rfl, rfl, rawPacket_auth m ha, by intro pos h'; cases h'⟩
  | some pos =>
    simp only [hp] at h
    have hge : 22 ≤ pos := by
      have := lastMsgAuthPos_ge m.attrs 20 none pos (fun _ _ => Or.inr trivial) hp
      rcases this with h1 | h1
      · cases h1
      · omega
    split at h
    · cases h
    · next hle =>
      cases h
      have hz16 : (zeros 16).length = 16 := by simp [zeros]
      have hfit : pos + 16 ≤ (rawPacket m).length := by rw [hlen]; omega
      have hzl : (splice (rawPacket m) pos (zeros 16)).length = (rawPacket m).length :=
        splice_length _ _ _ (by rw [hz16]; exact hfit)
      have hmacl := hhmac sec (splice (rawPacket m) pos (zeros 16))
      refine ⟨?_, ?_, ?_, ?_⟩
      · rw [splice_length _ _ _ (by rw [hmacl, hzl]; exact hfit), hzl]
      · rw [(splice_other_regions _ _ pos (by omega) (by rw [hmacl, hzl]; exact hfit)).1,
            (splice_other_regions _ _ pos (by omega) (by rw [hz16]; exact hfit)).1]
      · rw [(splice_other_regions _ _ pos (by omega) (by rw [hmacl, hzl]; exact hfit)).2,
            (splice_other_regions _ _ pos (by omega) (by rw [hz16]; exact hfit)).2]
        exact rawPacket_auth m ha
      · intro pos' hp'
        cases hp'
        unfold macOk
        rw [splice_splice _ _ _ pos (by rw [hmacl, hz16]) (by rw [hz16, hzl]; exact hfit),
            splice_splice _ _ _ pos rfl (by rw [hz16]; exact hfit)]
        have := splice_get (splice (rawPacket m) pos (zeros 16)) (H.hmacMd5 sec (splice (rawPacket m) pos (zeros 16))) pos
          (by rw [hmacl, hzl]; exact hfit)
        rw [hmacl] at this
        rw [this]; simp

omit hmd5 hhmac in
/-- `serialize` with a secret: when it produces a packet, no Message-Authenticator attribute had a wrong length and the
    packet is the one computed by the Message-Authenticator step followed by the signature -/
theorem serialize_eq (m : Msg) (sec : Bytes) (b a' : Bytes) (h : serialize H m (some sec) = .ok b a') :
    (if 20 + attrsSize m > maxLen then SerRes.fail
      else match stage1 H m sec with
        | none => .fault
        | some b1 =>
          if signedCode m.code then
            .ok (splice b1 4 (H.md5 (b1 ++ sec))) (if m.code = 4 then H.md5 (b1 ++ sec) else m.auth)
          else .ok b1 m.auth) = .ok b a' := by
  unfold serialize at h
  split at h
  · cases h
  · rename_i hsz
    simp only at h
    split at h
    · cases h
    · simp only [hsz, if_false]
      exact h

omit hmd5 hhmac in
/-- a packet is only produced when every Message-Authenticator attribute has 16 octets -/
theorem serialize_ok_msgauth_len (m : Msg) (sec : Bytes) (b a' : Bytes) (h : serialize H m (some sec) = .ok b a') :
    ∀ a ∈ m.attrs, a.t = 80 → a.v.length = 16 := by
  unfold serialize at h
  split at h
  · cases h
  · simp only at h
    split at h
    · cases h
    · rename_i hany
      intro a ha ht
      apply Classical.byContradiction
      intro hl
      exact hany (List.any_eq_true.mpr ⟨a, ha, by simp [ht, hl]⟩)

/-- **Length.** Every packet the serializer produces has a length field equal to
    its size, and the size is within 20..4096. -/
theorem serialize_length (m : Msg) (sec b a' : Bytes) (ha : m.auth.length = 16)
    (h : serialize H m (some sec) = .ok b a') :
    b.length = 20 + attrsSize m ∧ 20 ≤ b.length ∧ b.length ≤ 4096 ∧
    beVal ((b.drop 2).take 2) = b.length := by
  replace h := serialize_eq H m sec b a' h
  split at h
  · cases h
  · next hsz =>
    cases hs : stage1 H m sec with
    | none => simp [hs] at h
    | some b1 =>
      obtain ⟨hl, ht, _, _⟩ := stage1_props H hhmac m sec b1 ha hs
      have hraw := rawPacket_length m ha
      have hb : b.length = b1.length ∧ b.take 4 = b1.take 4 := by
        simp only [hs] at h
        split at h
        · cases h
          have h16 := hmd5 (b1 ++ sec)
          exact ⟨splice_length _ _ _ (by rw [h16, hl, hraw]; omega), splice_take _ _ 4 4 (Nat.le_refl _) (by rw [h16, hl, hraw]; omega)⟩
        · cases h; exact ⟨rfl, rfl⟩
      have hsz' : 20 + attrsSize m ≤ 4096 := by
        simp only [maxLen] at hsz; omega
      refine ⟨by rw [hb.1, hl, hraw], by rw [hb.1, hl, hraw]; omega, by rw [hb.1, hl, hraw]; exact hsz', ?_⟩
      -- the length field
      have hfield : (b.drop 2).take 2 = ((b.take 4).drop 2) := by
        rw [List.drop_take]
      rw [hfield, hb.2, ht]
      unfold rawPacket
      simp only [List.cons_append, List.take_succ_cons, List.drop_succ_cons, List.drop_zero]
      have : (beEnc 2 (20 + attrsSize m) ++ m.auth ++ attrsBytes m.attrs).take 2 =
             beEnc 2 (20 + attrsSize m) := by
        rw [List.append_assoc, List.take_left' (by simp)]
      rw [this, beVal_beEnc, hb.1, hl, hraw]
      exact Nat.mod_eq_of_lt (by omega)

/-- **Response / request authenticator.** For the signed codes the authenticator
    field is MD5(code,id,length ‖ msg.auth ‖ attributes ‖ secret): a valid Response
    Authenticator when msg.auth is the client's Request Authenticator, a valid
    Accounting-Request authenticator when msg.auth is sixteen zero octets. -/
theorem serialize_resp_auth (m : Msg) (sec b a' : Bytes) (ha : m.auth.length = 16)
    (hcode : signedCode m.code = true)
    (h : serialize H m (some sec) = .ok b a') :
    respAuthValid H b m.auth sec = true := by
  replace h := serialize_eq H m sec b a' h
  split at h
  · cases h
  · cases hs : stage1 H m sec with
    | none => simp [hs] at h
    | some b1 =>
      obtain ⟨hl, _, hauth, _⟩ := stage1_props H hhmac m sec b1 ha hs
      have hraw := rawPacket_length m ha
      simp only [hs, hcode, if_true] at h
      cases h
      have h16 := hmd5 (b1 ++ sec)
      have hfit : 4 + (H.md5 (b1 ++ sec)).length ≤ b1.length := by rw [h16, hl, hraw]; omega
      unfold respAuthValid
      rw [splice_take _ _ 4 4 (Nat.le_refl _) hfit, splice_drop _ _ 4 20 (by rw [h16]; omega) hfit]
      have hget := splice_get b1 (H.md5 (b1 ++ sec)) 4 hfit
      rw [h16] at hget
      rw [hget]
      -- b1 = b1.take 4 ++ msg.auth ++ b1.drop 20
      have hb1 : b1.take 4 ++ m.auth ++ b1.drop 20 = b1 := by
        rw [← hauth]
        have : b1.take 4 ++ (b1.drop 4).take 16 = b1.take 20 := by
          rw [show (20 : Nat) = 4 + 16 by rfl, List.take_add]
        rw [this, List.take_append_drop]
      rw [hb1]
      simp

/-- **Message-Authenticator.** The (last) Message-Authenticator of the emitted
    packet equals HMAC-MD5 over the packet with msg.auth in the authenticator
    field and the attribute's value zeroed. -/
theorem serialize_msgauth (m : Msg) (sec b a' : Bytes) (pos : Nat) (ha : m.auth.length = 16)
    (hpos : lastMsgAuthPos m.attrs 20 none = some pos)
    (h : serialize H m (some sec) = .ok b a') :
    macOk H (splice b 4 m.auth) pos sec = true := by
  replace h := serialize_eq H m sec b a' h
  split at h
  · cases h
  · cases hs : stage1 H m sec with
    | none => simp [hs] at h
    | some b1 =>
      obtain ⟨hl, _, hauth, hmac⟩ := stage1_props H hhmac m sec b1 ha hs
      have hraw := rawPacket_length m ha
      have hb1 : splice b1 4 m.auth = b1 := by
        unfold splice
        rw [ha, ← hauth]
        have : b1.take 4 ++ (b1.drop 4).take 16 = b1.take 20 := by
          rw [show (20 : Nat) = 4 + 16 by rfl, List.take_add]
        rw [this, List.take_append_drop]
      simp only [hs] at h
      split at h
      · cases h
        have h16 := hmd5 (b1 ++ sec)
        rw [splice_splice _ _ _ 4 (by rw [h16, ha]) (by rw [ha, hl, hraw]; omega), hb1]
        exact hmac pos hpos
      · cases h
        rw [hb1]; exact hmac pos hpos

end
end Rsp.Props.C06
