import Rsp.Model.World
import Rsp.Spec.Emit
namespace Rsp.Props.C06
end Rsp.Props.C06
