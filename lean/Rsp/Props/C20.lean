/-
  Property C20 — dynamic lookups are invoked only with a sanitised realm argument.
-/
import Rsp.Model.DynRealm
namespace Rsp.Props.C20
open Rsp Rsp.DynRealm

theorem afterLastAt_some (id r : Bytes) (h : afterLastAt id = some r) :
    ∃ pre, id = pre ++ 64 :: r ∧ ¬ (64 : UInt8) ∈ r := by
  induction id generalizing r with
  | nil => simp [afterLastAt] at h
  | cons c rest ih =>
    unfold afterLastAt at h
    cases hr : afterLastAt rest with
    | some r' =>
      simp only [hr] at h
      have e : r' = r := Option.some.inj h
      subst e
      obtain ⟨pre, hp, hn⟩ := ih r' hr
      exact ⟨c :: pre, by simp [hp], hn⟩
    | none =>
      simp only [hr] at h
      split at h
      · rename_i hc
        have e : rest = r := Option.some.inj h
        subst e
        refine ⟨[], by simp [hc], ?_⟩
        -- no '@' in rest, otherwise afterLastAt rest would be some
        intro hm
        have : ∀ l : Bytes, (64 : UInt8) ∈ l → afterLastAt l ≠ none := by
          intro l
          induction l with
          | nil => intro h; simp at h
          | cons d t iht =>
            intro hmem
            unfold afterLastAt
            cases ht : afterLastAt t with
            | some x => simp
            | none =>
              simp only
              cases List.mem_cons.mp hmem with
              | inl heq => simp [← heq]
              | inr hin => exact absurd ht (iht hin)
        exact this rest hm hr
      · cases h

theorem afterLastAt_none (id : Bytes) (h : afterLastAt id = none) : ¬ (64 : UInt8) ∈ id := by
  induction id with
  | nil => simp
  | cons c rest ih =>
    unfold afterLastAt at h
    cases hr : afterLastAt rest with
    | some r' => simp [hr] at h
    | none =>
      simp only [hr] at h
      split at h
      · cases h
      · rename_i hc
        intro hm
        cases List.mem_cons.mp hm with
        | inl heq => exact hc heq.symm
        | inr hin => exact ih hr hin

/-- **C20 (when a lookup starts).** A lookup is started for `r` exactly when `r` is the text after
    the last '@' of the identifier, is non-empty, and consists solely of ASCII letters, digits,
    '.' and '-'. -/
theorem dynRealmOf_some_iff (id r : Bytes) :
    dynRealmOf id = some r ↔ (∃ pre, id = pre ++ 64 :: r ∧ ¬ (64 : UInt8) ∈ r) ∧ r ≠ [] ∧ r.all allowed = true := by
  unfold dynRealmOf
  constructor
  · intro h
    cases ha : afterLastAt id with
    | none => simp [ha] at h
    | some r' =>
      simp only [ha] at h
      split at h
      · cases h
      · split at h
        · rename_i hne hall
          have e : r' = r := Option.some.inj h
          subst e
          refine ⟨afterLastAt_some id r' ha, ?_, hall⟩
          intro he; subst he; simp at hne
        · cases h
  · rintro ⟨⟨pre, hid, hno⟩, hne, hall⟩
    -- the text after the last '@' of pre ++ '@' :: r is r
    have key : ∀ pre : Bytes, afterLastAt (pre ++ 64 :: r) = some r := by
      intro pre
      induction pre with
      | nil =>
        simp only [List.nil_append]
        unfold afterLastAt
        cases hr : afterLastAt r with
        | some x =>
          obtain ⟨p, hp, _⟩ := afterLastAt_some r x hr
          exact absurd (by rw [hp]; simp) hno
        | none => simp
      | cons c t iht =>
        simp only [List.cons_append]
        unfold afterLastAt
        rw [iht]
    rw [hid, key pre]
    have : r.isEmpty = false := by cases r <;> simp_all
    simp [this, hall]

/-- **C20 (nothing else gets through).** Every octet of an accepted realm is an ASCII letter, a digit,
    '.' or '-': no whitespace, no shell metacharacter, no '/', no NUL, no octet above 127. -/
theorem dynRealmOf_sanitised (id r : Bytes) (h : dynRealmOf id = some r) :
    ∀ c ∈ r, (48 ≤ c.toNat ∧ c.toNat ≤ 57) ∨ (65 ≤ c.toNat ∧ c.toNat ≤ 90) ∨ (97 ≤ c.toNat ∧ c.toNat ≤ 122) ∨ c = 46 ∨ c = 45 := by
  obtain ⟨_, _, hall⟩ := (dynRealmOf_some_iff id r).mp h
  intro c hc
  have := List.all_eq_true.mp hall c hc
  unfold allowed isAlnum at this
  simp only [Bool.or_eq_true, Bool.and_eq_true, decide_eq_true_eq] at this
  rcases this with (h46 | h45) | ((hd | hu) | hl)
  · exact Or.inr (Or.inr (Or.inr (Or.inl h46)))
  · exact Or.inr (Or.inr (Or.inr (Or.inr h45)))
  · exact Or.inl hd
  · exact Or.inr (Or.inl hu)
  · exact Or.inr (Or.inr (Or.inl hl))

/-- **C20 (the command's argument).** The external command is executed directly (no shell) with the
    accepted text, unchanged, as its single argument. -/
theorem exec_argv (cmd arg : Bytes) (h1 : lowerAll (cmd.take 6) ≠ naptrPrefix) (h2 : lowerAll (cmd.take 4) ≠ srvPrefix) :
    lookupFor cmd arg = .exec cmd [cmd, arg] := by
  unfold lookupFor; simp [h1, h2]

/-- **C20 (DNS names).** naptr: asks for exactly the accepted text; srv: for the configured prefix, one
    dot, and exactly the accepted text. -/
theorem dns_names (cmd arg : Bytes) :
    (lowerAll (cmd.take 6) = naptrPrefix → lookupFor cmd arg = .dns 35 arg) ∧
    (lowerAll (cmd.take 6) ≠ naptrPrefix → lowerAll (cmd.take 4) = srvPrefix →
      ∃ pfx, lookupFor cmd arg = .dns 33 (pfx ++ arg) ∧ (pfx = cmd.drop 4 ∨ pfx = cmd.drop 4 ++ [46])) := by
  constructor
  · intro h; unfold lookupFor; simp [h]
  · intro h1 h2
    unfold lookupFor
    simp only [h1, h2, if_true, if_false]
    by_cases hd : cmd.getLast? = some 46
    · exact ⟨cmd.drop 4, by simp [hd], Or.inl rfl⟩
    · exact ⟨cmd.drop 4 ++ [46], by simp [hd], Or.inr rfl⟩

/-- no lookup of any kind without an accepted realm -/
theorem no_realm_no_lookup (cmd id : Bytes) (h : dynRealmOf (cstr id) = none) : dynLookup cmd id = none := by
  unfold dynLookup; rw [h]; rfl

end Rsp.Props.C20
