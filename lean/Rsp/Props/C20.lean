/-
  Property C20 — dynamic lookups are invoked only with a sanitised realm argument.
-/
import Rsp.Model.DynRealm
namespace Rsp.Props.C20
open Rsp Rsp.DynRealm

theorem afterLastAt_some (id r : Bytes) (h : afterLastAt id = some r) :
    ∃ pre, id = pre ++ 64 :: r ∧ ¬ (64 : UInt8) ∈ r := by
  induction id generalizing r with
  | nil => simp [afterLastAt] at h
  | cons c rest ih =>
    unfold afterLastAt at h
    cases hr : afterLastAt rest with
    | some r' =>
      simp only [hr] at h
      have e : r' = r := Option.some.inj h
      subst e
      obtain ⟨pre, hp, hn⟩ := ih r' hr
      exact ⟨c :: pre, by simp [hp], hn⟩
    | none =>
      simp only [hr] at h
      split at h
      · rename_i hc
        have e : rest = r := Option.some.inj h
        subst e
        refine ⟨[], by simp [hc], ?_⟩
        -- no '@' in rest, otherwise afterLastAt rest would be some
        intro hm
        have : ∀ l : Bytes, (64 : UInt8) ∈ l → afterLastAt l ≠ none := by
          intro l
          induction l with
          | nil => intro h; simp at h
          | cons d t iht =>
            intro hmem
            unfold afterLastAt
            cases ht : afterLastAt t with
            | some x => simp
            | none =>
              simp only
              cases List.mem_cons.mp hmem with
              | inl heq => simp [← heq]
              | inr hin => exact absurd ht (iht hin)
        exact this rest hm hr
      · cases h

theorem afterLastAt_none (id : Bytes) (h : afterLastAt id = none) : ¬ (64 : UInt8) ∈ id := by
  induction id with
  | nil => simp
  | cons c rest ih =>
    unfold afterLastAt at h
    cases hr : afterLastAt rest with
    | some r' => simp [hr] at h
    | none =>
      simp only [hr] at h
      split at h
      · cases h
      · rename_i hc
        intro hm
        cases List.mem_cons.mp hm with
        | inl heq => exact hc heq.symm
        | inr hin => exact ih hr hin

/-- **C20 (when a lookup starts).** A lookup is started for `r` exactly when `r` is the text after
    the last '@' of the identifier, is non-empty, and consists solely of ASCII letters, digits,
    '.' and '-'. -/
theorem dynRealmOf_some_iff (id r : Bytes) :
    dynRealmOf id = some r ↔ (∃ pre, id = pre ++ 64 :: r ∧ ¬ (64 : UInt8) ∈ r) ∧ r ≠ [] ∧ r.all allowed = true := by
  unfold dynRealmOf
  constructor
  · intro h
    cases ha : afterLastAt id with
    | none => simp [ha] at h
    | some r' =>
      simp only [ha] at h
      split at h
      · cases h
      · split at h
        · rename_i hne hall
          have e : r' = r := Option.some.inj h
          subst e
          refine ⟨afterLastAt_some id r' ha, ?_, hall⟩
          intro he; subst he; simp at hne
        · cases h
  · rintro ⟨⟨pre, hid, hno⟩, hne, hall⟩
    -- the text after the last '@' of pre ++ '@' :: r is r
    have key : ∀ pre : Bytes, afterLastAt (pre ++ 64 :: r) = some r := by
      intro pre
      induction pre with
      | nil =>
        simp only [List.nil_append]
        unfold afterLastAt
        cases hr : afterLastAt r with
        | some x =>
          obtain ⟨p, hp, _⟩ := afterLastAt_some r x hr
          exact absurd (by rw [hp]; simp) hno
        | none => simp
      | cons c t iht =>
        simp only [List.cons_append]
        unfold afterLastAt
        rw [iht]
    rw [hid, key pre]
    have : r.isEmpty = false := by cases r <;> simp_all
    simp [this, hall]

/-- **C20 (nothing else gets through).** Every octet of an accepted realm is an ASCII letter, a digit,
    '.' or '-': no whitespace, no shell metacharacter, no '/', no NUL, no octet above 127. -/
theorem dynRealmOf_sanitised (id r : Bytes) (h : dynRealmOf id = some r) :
    ∀ c ∈ r, (48 ≤ c.toNat ∧ c.toNat ≤ 57) ∨ (65 ≤ c.toNat ∧ c.toNat ≤ 90) ∨ (97 ≤ c.toNat ∧ c.toNat ≤ 122) ∨ c = 46 ∨ c = 45 := by
  obtain ⟨_, _, hall⟩ := (dynRealmOf_some_iff id r).mp h
  intro c hc
  have := List.all_eq_true.mp hall c hc
  unfold allowed isAlnum at this
  simp only [Bool.or_eq_true, Bool.and_eq_true, decide_eq_true_eq] at this
  rcases this with (h46 | h45) | ((hd | hu) | hl)
  · exact Or.inr (Or.inr (Or.inr (Or.inl h46)))
  · exact Or.inr (Or.inr (Or.inr (Or.inr h45)))
  · exact Or.inl hd
  · exact Or.inr (Or.inl hu)
  · exact Or.inr (Or.inr (Or.inl hl))

/-- **C20 (the command's argument).** The external command is executed directly (no shell) with the
    accepted text, unchanged, as its single argument. -/
theorem exec_argv (cmd arg : Bytes) (h1 : lowerAll (cmd.take 6) ≠ naptrPrefix) (h2 : lowerAll (cmd.take 4) ≠ srvPrefix) :
    lookupFor cmd arg = .exec cmd [cmd, arg] := by
  unfold lookupFor; simp [h1, h2]

/-- **C20 (DNS names).** naptr: asks for exactly the accepted text; srv: for the configured prefix, one
    dot, and exactly the accepted text. -/
theorem dns_names (cmd arg : Bytes) :
    (lowerAll (cmd.take 6) = naptrPrefix → lookupFor cmd arg = .dns 35 arg) ∧
    (lowerAll (cmd.take 6) ≠ naptrPrefix → lowerAll (cmd.take 4) = srvPrefix →
      ∃ pfx, lookupFor cmd arg = .dns 33 (pfx ++ arg) ∧ (pfx = cmd.drop 4 ∨ pfx = cmd.drop 4 ++ [46])) := by
  constructor
  · intro h; unfold lookupFor; simp [h]
  · intro h1 h2
    unfold lookupFor
    simp only [h1, h2, if_true, if_false]
    by_cases hd : cmd.getLast? = some 46
    · exact ⟨cmd.drop 4, by simp [hd], Or.inl rfl⟩
    · exact ⟨cmd.drop 4 ++ [46], by simp [hd], Or.inr rfl⟩

/-- no lookup of any kind without an accepted realm -/
theorem no_realm_no_lookup (cmd id : Bytes) (h : dynRealmOf (cstr id) = none) : dynLookup cmd id = none := by
  unfold dynLookup; rw [h]; rfl

/-! ### the restart path of `findserver` (an existing sub-realm whose discovered server gave up) -/

theorem afterLastAt_append (pre r : Bytes) (hno : ¬ (64 : UInt8) ∈ r) : afterLastAt (pre ++ 64 :: r) = some r := by
  induction pre with
  | nil =>
    simp only [List.nil_append]
    unfold afterLastAt
    cases hr : afterLastAt r with
    | some x =>
      obtain ⟨p, hp, _⟩ := afterLastAt_some r x hr
      exact absurd (by rw [hp]; simp) hno
    | none => simp
  | cons c t iht =>
    simp only [List.cons_append]
    unfold afterLastAt
    rw [iht]

theorem toLower_eq_at (c : UInt8) (h : Log.toLower c = 64) : c = 64 := by
  unfold Log.toLower at h
  split at h
  · rename_i hc
    simp only [Bool.and_eq_true, decide_eq_true_eq] at hc
    have h2 : (c + 32).toNat = 64 := by rw [h]; rfl
    rw [UInt8.toNat_add] at h2
    have : (32 : UInt8).toNat = 32 := rfl
    omega
  · exact h

/-- restarting a discovery inside an existing sub-realm hands the lookup the sub-realm's own text -/
theorem refind_restart (cmd r1 id r : Bytes) (l : Lookup) (h : refind cmd r1 id = some (r, true, l)) :
    r = r1 ∧ l = lookupFor cmd r1 := by
  unfold refind at h
  split at h
  · simp only [Option.some.injEq, Prod.mk.injEq, true_and] at h
    exact ⟨h.1.symm, h.2.symm⟩
  · cases hd : dynLookup cmd id with
    | none => simp [hd] at h
    | some p => simp [hd] at h

/-- nothing but sanitised text reaches a lookup on the restart path either: the text is non-empty, all letters, digits,
    '.' and '-', and the lookup is the one built from exactly that text -/
theorem refind_sanitised (cmd r1 id r : Bytes) (b : Bool) (l : Lookup) (hne : r1 ≠ []) (hall : r1.all allowed = true)
    (h : refind cmd r1 id = some (r, b, l)) : r ≠ [] ∧ r.all allowed = true ∧ l = lookupFor cmd r := by
  unfold refind at h
  split at h
  · simp only [Option.some.injEq, Prod.mk.injEq] at h
    obtain ⟨h1, _, h3⟩ := h
    subst h1
    exact ⟨hne, hall, h3.symm⟩
  · unfold dynLookup at h
    cases hd : dynRealmOf (cstr id) with
    | none => simp [hd] at h
    | some r' =>
      simp only [hd, Option.map_some, Option.some.injEq, Prod.mk.injEq] at h
      obtain ⟨h1, _, h3⟩ := h
      subst h1
      obtain ⟨_, hne', hall'⟩ := (dynRealmOf_some_iff (cstr id) r').mp hd
      exact ⟨hne', hall', h3.symm⟩

/-- an identifier that restarts a sub-realm's discovery has that sub-realm's text, up to letter case, after its LAST '@':
    text in front of it — further '@', shell syntax — never reaches the lookup -/
theorem refind_restart_last_realm (r1 id : Bytes) (hall : r1.all allowed = true) (h : endsWithCI id (64 :: r1) = true) :
    ∃ r', afterLastAt id = some r' ∧ lowerAll r' = lowerAll r1 := by
  unfold endsWithCI at h
  simp only [Bool.and_eq_true, decide_eq_true_eq, beq_iff_eq, List.length_cons] at h
  obtain ⟨hlen, heq⟩ := h
  have hsplit : id = id.take (id.length - (r1.length + 1)) ++ id.drop (id.length - (r1.length + 1)) := (List.take_append_drop _ _).symm
  generalize hsuf : id.drop (id.length - (r1.length + 1)) = suf at heq hsplit
  cases suf with
  | nil => simp [lowerAll] at heq
  | cons c r' =>
    simp only [lowerAll, List.map_cons, List.cons.injEq] at heq
    obtain ⟨hc, hr⟩ := heq
    have hc64 : c = 64 := toLower_eq_at c (by rw [hc]; rfl)
    subst hc64
    have hno : ¬ (64 : UInt8) ∈ r' := by
      intro hm
      have : Log.toLower 64 ∈ r'.map Log.toLower := List.mem_map_of_mem hm
      rw [hr] at this
      obtain ⟨x, hx, hxe⟩ := List.mem_map.mp this
      have hx64 : x = 64 := toLower_eq_at x (by rw [hxe]; rfl)
      subst hx64
      have := List.all_eq_true.mp hall 64 hx
      simp [allowed, isAlnum] at this
    refine ⟨r', ?_, by simpa [lowerAll] using hr⟩
    rw [hsplit]
    exact afterLastAt_append _ r' hno

end Rsp.Props.C20
