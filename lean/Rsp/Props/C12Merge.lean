/-
  Properties C12 / C13 / C15 for servers discovered by a lookup command: "as configured" means the printed block where it speaks,
  the template block where it does not, the transport's default where neither does.
-/
import Rsp.Model.Merge
namespace Rsp.Props.C12
open Rsp.Merge

theorem block_wins (b t : Option Nat) (d v : Nat) (h : b = some v) : withDefault b t d = v := by
  subst h; rfl

theorem template_when_block_silent (t : Option Nat) (d v : Nat) (h : t = some v) : withDefault none t d = v := by
  subst h; rfl

theorem default_when_both_silent (d : Nat) : withDefault none none d = d := rfl

/-- the value is never invented: it is one of the three -/
theorem withDefault_cases (b t : Option Nat) (d : Nat) :
    b = some (withDefault b t d) ∨ (b = none ∧ t = some (withDefault b t d)) ∨ (b = none ∧ t = none ∧ withDefault b t d = d) := by
  cases b with
  | some v => exact Or.inl rfl
  | none => cases t with
    | some v => exact Or.inr (Or.inl ⟨rfl, rfl⟩)
    | none => exact Or.inr (Or.inr ⟨rfl, rfl, rfl⟩)

/-- C13: LoopPrevention "for the server" of a discovered server is on exactly when its block says on, or says nothing while the
    template says on -/
theorem inherited_on_iff (b t : Option Nat) :
    inherited b t = some 1 ↔ b = some 1 ∨ (b = none ∧ t = some 1) := by
  cases b with
  | some v => simp [inherited]
  | none => simp [inherited]

/-- C15: the subject CN is consulted for a discovered server only if its own block switches CertificateCNCheck on -/
theorem cnCheck_on_iff (b : Option Nat) : cnCheck b = 1 ↔ b = some 1 := by
  cases b with
  | some v => simp [cnCheck]
  | none => simp [cnCheck]

end Rsp.Props.C12
