/-
  Property C08 — requests are routed by the first matching realm, as documented.
-/
import Rsp.Model.Realm
import Rsp.Spec.Realm
import Rsp.Model.World
namespace Rsp.Props.C08
open Rsp Rsp.Realm Rsp.Spec.Realm

/-! ### what addrealm builds -/

theorem nameChar_facts : ∀ n < 256, nameChar (UInt8.ofNat n) = true →
    (UInt8.ofNat n ≠ 36 ∧ UInt8.ofNat n ≠ 92 ∧ UInt8.ofNat n ≠ 47 ∧ UInt8.ofNat n ≠ 42 ∧
     (UInt8.ofNat n ≠ 46 → special (UInt8.ofNat n) = false)) := by decide +kernel

theorem nameChar_facts' (c : UInt8) (h : nameChar c = true) :
    c ≠ 36 ∧ c ≠ 92 ∧ c ≠ 47 ∧ c ≠ 42 ∧ (c ≠ 46 → special c = false) := by
  have := nameChar_facts c.toNat c.toNat_lt
  simpa using this (by simpa using h)

/-- a plain realm name becomes `@`, the name with every dot escaped, `$` -/
theorem realmPattern_plain (n : Bytes) (h : isPlainName n = true) :
    realmPattern n = 64 :: escapeDots n ++ [36] := by
  unfold realmPattern
  match n, h with
  | [], _ => rfl
  | c :: t, h =>
    have hc : nameChar c = true := by
      unfold isPlainName at h; simp only [List.all_cons, Bool.and_eq_true] at h; exact h.1
    obtain ⟨_, _, h47, h42, _⟩ := nameChar_facts' c hc
    split
    · rename_i heq; simp only [List.cons.injEq] at heq; exact absurd heq.1 h47
    · rename_i heq; simp only [List.cons.injEq] at heq; exact absurd heq.1 h42
    · rfl

theorem realmPattern_star : realmPattern [42] = [46, 42] := rfl

/-- `/re/` and `/re` both give `re` -/
theorem realmPattern_regex (re : Bytes) (h : re.getLast? ≠ some 47) :
    realmPattern (47 :: re ++ [47]) = re ∧ realmPattern (47 :: re) = re := by
  constructor
  · unfold realmPattern
    have : (47 :: (re ++ [47]) : Bytes).getLast? = some 47 := by
      rw [show (47 :: (re ++ [47]) : Bytes) = (47 :: re) ++ [47] from rfl, List.getLast?_append]; simp
    simp only [List.cons_append, this, if_true]
    simp
  · unfold realmPattern
    cases re with
    | nil => simp
    | cons a t =>
      have : (47 :: a :: t : Bytes).getLast? = (a :: t).getLast? := by simp [List.getLast?_cons_cons]
      simp only [this]
      rw [if_neg h]

/-- that expression is inside the modelled fragment: literal `@`, the literal name, end of string -/
theorem parseFrag_plain (n : Bytes) (h : isPlainName n = true) :
    parseFrag (realmPattern n) = some (.lit 64 :: n.map .lit ++ [.eol]) := by
  rw [realmPattern_plain n h]
  have key : ∀ n : Bytes, isPlainName n = true → parseFrag (escapeDots n ++ [36]) = some (n.map .lit ++ [.eol]) := by
    intro n
    induction n with
    | nil => intro _; simp [escapeDots, parseFrag]
    | cons c t ih =>
      intro h
      unfold isPlainName at h; simp only [List.all_cons, Bool.and_eq_true] at h
      have iht := ih (by unfold isPlainName; exact h.2)
      obtain ⟨h36, h92, _, _, hsp⟩ := nameChar_facts' c h.1
      by_cases h46 : c = 46
      · subst h46
        have : escapeDots (46 :: t) ++ [36] = 92 :: 46 :: (escapeDots t ++ [36]) := by simp [escapeDots]
        rw [this, parseFrag]
        simp [iht, special]
      · have hne : ∃ d r, escapeDots t ++ [36] = d :: r := by
          cases hh : escapeDots t ++ [36] with
          | nil => simp at hh
          | cons d r => exact ⟨d, r, rfl⟩
        obtain ⟨d, r, hdr⟩ := hne
        have : escapeDots (c :: t) ++ [36] = c :: d :: r := by simp [escapeDots, h46, ← hdr]
        rw [this, parseFrag, if_neg h36, if_neg h92, if_neg h46, ← hdr, iht]
        simp [hsp h46]
  obtain ⟨d, r, hdr⟩ : ∃ d r, escapeDots n ++ [36] = d :: r := by
    cases hh : escapeDots n ++ [36] with
    | nil => simp at hh
    | cons d r => exact ⟨d, r, rfl⟩
  rw [List.cons_append, hdr, parseFrag, ← hdr, key n h]
  simp [special]

/-! ### what it matches -/

theorem matchAt_lits (p s : Bytes) :
    matchAt (p.map .lit ++ [.eol]) s = (s.map Log.toLower == p.map Log.toLower) := by
  induction p generalizing s with
  | nil => cases s <;> simp [matchAt]
  | cons a t ih =>
    cases s with
    | nil => simp [matchAt]
    | cons x s =>
      simp only [List.map_cons, List.cons_append, matchAt, ih]
      by_cases hx : Log.toLower a = Log.toLower x
      · simp [hx]
      · have h1 : (Log.toLower a == Log.toLower x) = false := by simpa using hx
        have h2 : (Log.toLower x == Log.toLower a) = false := by simpa using fun h => hx h.symm
        simp [h1, h2]

theorem suffixCaseless_len (p s : Bytes) (h : s.length < p.length) : suffixCaseless p s = false := by
  unfold suffixCaseless; simp; omega

/-- searching for literal-then-end is a caseless suffix test -/
theorem fragSearch_lits (p s : Bytes) (hp : p ≠ []) :
    fragSearch (p.map .lit ++ [.eol]) s = suffixCaseless p s := by
  induction s with
  | nil =>
    simp only [fragSearch, matchAt_lits]
    cases p with
    | nil => exact absurd rfl hp
    | cons a t => simp [suffixCaseless]
  | cons x s ih =>
    simp only [fragSearch, matchAt_lits, ih]
    by_cases hl : p.length = s.length + 1
    · have h2 : suffixCaseless p s = false := suffixCaseless_len p s (by omega)
      rw [h2, Bool.or_false]
      unfold suffixCaseless
      have : (x :: s).length - p.length = 0 := by simp; omega
      rw [this]
      simp [hl]
    · by_cases hle : p.length ≤ s.length
      · have hne : ((x :: s).map Log.toLower == p.map Log.toLower) = false := by
          apply Bool.eq_false_iff.mpr
          intro h
          have := congrArg List.length (eq_of_beq h)
          simp at this; omega
        rw [hne]
        unfold suffixCaseless
        have : (x :: s).length - p.length = (s.length - p.length) + 1 := by simp; omega
        rw [this]
        simp [hle]; omega
      · have hne : ((x :: s).map Log.toLower == p.map Log.toLower) = false := by
          apply Bool.eq_false_iff.mpr
          intro h
          have := congrArg List.length (eq_of_beq h)
          simp at this; omega
        rw [hne, suffixCaseless_len p s (by omega), suffixCaseless_len p (x :: s) (by simp; omega)]
        rfl

/-- **C08 (plain realm).** Whatever the oracle says about other expressions, the
    expression built for a plain realm name matches exactly the identifiers that
    end in `@name`, ignoring case. -/
theorem plain_realm_matches_iff (rx : Rewrite.RxOracle) (n id : Bytes) (h : isPlainName n = true) :
    rxEval rx (realmPattern n) id = suffixCaseless (64 :: n) id := by
  unfold rxEval
  rw [parseFrag_plain n h]
  have := fragSearch_lits (64 :: n) id (by simp)
  simpa using this

theorem matchAt_dotStar (s : Bytes) : matchAt [.dotStar] s = true := by
  induction s with
  | nil => simp [matchAt]
  | cons x s _ => simp [matchAt]

/-- **C08 (`*`).** matches every identifier -/
theorem star_realm_matches_all (rx : Rewrite.RxOracle) (id : Bytes) : rxEval rx (realmPattern [42]) id = true := by
  unfold rxEval
  have : parseFrag (realmPattern [42]) = some [.dotStar] := by decide
  rw [this]
  cases id with
  | nil => simp [fragSearch, matchAt_dotStar]
  | cons x s => simp [fragSearch, matchAt_dotStar]

/-- the model agrees with the documented meaning wherever the documentation defines one -/
theorem rxEval_meets_spec (rx : Rewrite.RxOracle) (value id : Bytes) (h : value.head? ≠ some 47) (hp : isPlainName value = true ∨ value = [42]) :
    realmMatches value id none = some (rxEval rx (realmPattern value) id) := by
  unfold realmMatches
  cases hp with
  | inr hs => subst hs; simp [star_realm_matches_all]
  | inl hp =>
    have h42 : value ≠ [42] := by
      intro h'; subst h'; revert hp; decide
    rw [if_neg h42, if_neg h, if_pos hp, plain_realm_matches_iff rx value id hp]

/-! ### first match, and what happens without a server -/
open Rsp.World in
/-- **C08 (order).** `id2realm` returns the index of a realm that matches, and no realm
    before it in configuration order matches. -/
theorem id2realm_first (w : World) (id : Bytes) (i : Nat) (h : id2realm w id = some i) :
    (∃ r, w.realms[i]? = some r ∧ rxEval w.rx r.pattern id = true) ∧
    ∀ j, j < i → ∀ r', w.realms[j]? = some r' → rxEval w.rx r'.pattern id = false := by
  unfold id2realm at h
  rw [List.findIdx?_eq_some_iff_getElem] at h
  obtain ⟨hi, hm, hbefore⟩ := h
  refine ⟨⟨w.realms[i], by simp [hi], hm⟩, ?_⟩
  intro j hj r' hr'
  have hjl : j < w.realms.length := by omega
  have := hbefore j hj
  rw [List.getElem?_eq_getElem hjl] at hr'
  cases hr'
  simpa using this


open Rsp.World in
/-- **C08 (no realm).** no result exactly when no configured realm matches -/
theorem id2realm_none_iff (w : World) (id : Bytes) :
    id2realm w id = none ↔ ∀ r ∈ w.realms, rxEval w.rx r.pattern id = false := by
  unfold id2realm
  rw [List.findIdx?_eq_none_iff]

open Rsp.World in
/-- **C08 (which list).** Accounting-Requests use the accounting servers, everything else the
    authentication servers -/
theorem realmServers_table (r : World.Realm) (code : UInt8) :
    (code = 4 → realmServers r code = r.acc) ∧ (code ≠ 4 → realmServers r code = r.srv) := by
  unfold realmServers; constructor <;> intro h <;> simp [h]

open Rsp.World in
/-- **C08 (no server).** Access-Reject with the ReplyMessage only if one is configured and the
    request is an Access-Request; Accounting-Response only if AccountingResponse is on and the
    request is an Accounting-Request; otherwise nothing. -/
theorem noServerOutcome_table (r : World.Realm) (code : UInt8) :
    (∀ msg, noServerOutcome r code = .reject msg ↔ (r.msg = some msg ∧ code = 1)) ∧
    (noServerOutcome r code = .acctResponse ↔ (r.accresp = true ∧ code = 4)) := by
  unfold noServerOutcome
  constructor
  · intro msg
    cases hm : r.msg with
    | none => simp; split <;> simp
    | some m =>
      by_cases hc : code = 1
      · simp [hc]
      · simp [hc]; split <;> simp
  · cases hm : r.msg with
    | none => simp
    | some m =>
      by_cases hc : code = 1
      · subst hc; simp
      · simp [hc]

/-! ### the decision as `radsrv` takes it (`World.radsrvRoute`, the stage that follows parsing, the checks of C05 and the rewriting) -/

open Rsp.World in
/-- freeing a request touches neither a reply queue nor a server: "silently" -/
theorem freerq_silent (w : World) (o : Nat) : (freerq w o).clients = w.clients ∧ (freerq w o).servers = w.servers := by
  unfold freerq
  split
  · exact ⟨rfl, rfl⟩
  · split
    · exact ⟨rfl, rfl⟩
    · unfold setRq; exact ⟨rfl, rfl⟩

open Rsp.World in
/-- **C08 (no realm, at the request).** when no configured realm matches the User-Name the request is released and nothing else
    happens: no reply queued, nothing forwarded -/
theorem route_no_realm (w : World) (o : Nat) (cc : CliConf) (m0 : Radmsg.Msg) (as3 : List Radmsg.Tlv) (ttlres : Int) (uname : Bytes)
    (h : ∀ r ∈ w.realms, rxEval w.rx r.pattern (cstr uname) = false) :
    radsrvRoute w o cc m0 as3 ttlres uname = freerq w o ∧
    (radsrvRoute w o cc m0 as3 ttlres uname).clients = w.clients ∧ (radsrvRoute w o cc m0 as3 ttlres uname).servers = w.servers := by
  have hn : id2realm w (cstr uname) = none := (id2realm_none_iff w (cstr uname)).2 h
  have : radsrvRoute w o cc m0 as3 ttlres uname = freerq w o := by unfold radsrvRoute; rw [hn]
  rw [this]; exact ⟨rfl, freerq_silent w o⟩

open Rsp.World in
/-- **C08 (no list, at the request).** the first matching realm has no server list for this kind of request: an Access-Request is
    answered with Access-Reject carrying the ReplyMessage exactly when one is configured, an Accounting-Request with
    Accounting-Response exactly when AccountingResponse is on, anything else only released -/
theorem route_no_list (w : World) (o : Nat) (cc : CliConf) (m0 : Radmsg.Msg) (as3 : List Radmsg.Tlv) (ttlres : Int) (uname : Bytes) (ri : Nat)
    (h : id2realm w (cstr uname) = some ri)
    (hl : realmServers (w.realms.getD ri { pattern := [] }) m0.code = none) :
    radsrvRoute w o cc m0 as3 ttlres uname =
      match noServerOutcome (w.realms.getD ri { pattern := [] }) m0.code with
      | .reject msg => freerq (respond w o 3 (some { t := 18, v := msg }) true) o
      | .acctResponse => freerq (respond w o 5 none false) o
      | .ignore => freerq w o := by
  unfold radsrvRoute; rw [h]; simp only [hl]; rfl

open Rsp.World in
/-- **C08 (forwarded, at the request).** the first matching realm lists servers for this kind of request and `choosesrvconf` picks one
    that is still there: the request goes on to exactly that server (C09 says which of the list it is) -/
theorem route_forwards (w w' : World) (o : Nat) (cc : CliConf) (m0 : Radmsg.Msg) (as3 : List Radmsg.Tlv) (ttlres : Int) (uname : Bytes)
    (ri si : Nat) (l : List Nat)
    (h : id2realm w (cstr uname) = some ri)
    (hl : realmServers (w.realms.getD ri { pattern := [] }) m0.code = some l)
    (hc : choosesrv w l = (w', some si)) (hg : srvGone w' si = false) :
    radsrvRoute w o cc m0 as3 ttlres uname = radsrvForward w' o cc m0 as3 ttlres si := by
  unfold radsrvRoute; rw [h]; simp only [hl, hc, Option.bind, hg]; rfl

open Rsp.World in
/-- **C08 ('*', at the request).** with a `*` realm among the blocks, no User-Name - the empty one included - is left without a realm -/
theorem star_never_unrouted (w : World) (id : Bytes) (r : World.Realm) (hr : r ∈ w.realms) (hp : r.pattern = realmPattern [42]) :
    id2realm w id ≠ none := by
  intro hn
  have := (id2realm_none_iff w id).1 hn r hr
  rw [hp, star_realm_matches_all] at this
  exact Bool.noConfusion this

end Rsp.Props.C08
