/-
  Property C14 for TLS connections (and, the code having the same structure, DTLS): the block a connection is attributed to lists
  the peer's address; a peer matching no block is attributed to nobody; among the blocks that list it, the first acceptable one wins.
-/
import Rsp.Model.TlsAttr
namespace Rsp.Props.C14
open Rsp.TlsAttr

/-- **C14 (TLS).** Whatever block a connection is attributed to: it is one of the configured blocks, its host list contains the
    peer's address, the peer's chain verified and its certificate meets that block's conditions -/
theorem attribute_sound (trusted : Bool) (bs : List Blk) (b : Blk) (h : attributeTo trusted bs = some b) :
    b ∈ bs ∧ b.addrMatch = true ∧ b.certOk = true ∧ trusted = true ∧ b.psk = none := by
  unfold attributeTo at h
  split at h
  · cases h
  · split at h
    · cases h
    · rename_i htr
      have hm := List.mem_of_find?_eq_some h
      have hp := List.find?_some h
      have hc : b ∈ bs ∧ b.addrMatch = true := by
        unfold candidates at hm
        simpa [List.mem_filter] using hm
      simp only [Bool.and_eq_true, decide_eq_true_eq] at hp
      refine ⟨hc.1, hc.2, hp.2, ?_, ?_⟩
      · cases trusted <;> simp_all
      · have := hp.1.2
        cases hb : b.psk <;> simp_all

/-- traffic whose source matches no client block of the transport is attributed to nobody (and then nothing of it is parsed) -/
theorem no_match_no_block (trusted : Bool) (bs : List Blk) (h : ∀ b ∈ bs, b.addrMatch = false) : attributeTo trusted bs = none := by
  unfold attributeTo
  have : candidates bs = [] := by
    unfold candidates
    rw [List.filter_eq_nil_iff]
    intro b hb
    simp [h b hb]
  rw [this]
  rfl

/-- … and a peer whose certificate chain does not verify is nobody, whatever blocks list its address -/
theorem untrusted_no_block (bs : List Blk) : attributeTo false bs = none := by
  unfold attributeTo
  split <;> rfl

/-- the FIRST acceptable candidate wins: no block that lists the address, belongs to the handshake's TLS context and accepts the
    certificate stands before the one chosen -/
theorem attribute_first (trusted : Bool) (bs : List Blk) (b first : Blk) (hf : (candidates bs).head? = some first)
    (h : attributeTo trusted bs = some b) :
    ∃ pre post, candidates bs = pre ++ b :: post ∧ ∀ c ∈ pre, ¬ (c.tls = first.tls ∧ c.psk = none ∧ c.certOk = true) := by
  unfold attributeTo at h
  rw [hf] at h
  simp only at h
  split at h
  · cases h
  · obtain ⟨pre, post, hsplit, hpre⟩ := List.find?_eq_some_iff_append.mp h |>.2
    refine ⟨pre, post, hsplit, ?_⟩
    intro c hc hcc
    have := hpre c hc
    simp [hcc.1, hcc.2.1, hcc.2.2] at this

/-- **C14 (TLS-PSK).** Whatever block a connection made under a PSK is attributed to: it is one of the configured blocks, its host list
    contains the peer's address, and identity and key of that block are the ones the peer used -/
theorem psk_attribute_sound (id key : List UInt8) (bs : List Blk) (b : Blk) (h : attributePsk id key bs = some b) :
    b ∈ bs ∧ b.addrMatch = true ∧ b.psk = some (id, key) := by
  unfold attributePsk at h
  split at h
  · cases h
  · rename_i c hc
    split at h
    · rename_i hk
      cases h
      have hm := List.mem_of_find?_eq_some hc
      have hp := List.find?_some hc
      have hcand : b ∈ candidates bs := by
        unfold pskCandidates at hm
        split at hm
        · cases hm
        · exact (List.mem_filter.mp hm).1
      have hb : b ∈ bs ∧ b.addrMatch = true := by
        unfold candidates at hcand
        simpa [List.mem_filter] using hcand
      refine ⟨hb.1, hb.2, ?_⟩
      cases hpsk : b.psk with
      | none => simp [hpsk] at hp
      | some pk =>
        obtain ⟨i, k⟩ := pk
        simp [hpsk] at hp hk
        rw [hp, hk]
    · cases h

/-- a PSK peer whose address no block lists is nobody -/
theorem psk_no_match_no_block (id key : List UInt8) (bs : List Blk) (h : ∀ b ∈ bs, b.addrMatch = false) : attributePsk id key bs = none := by
  unfold attributePsk pskCandidates
  have : candidates bs = [] := by
    unfold candidates
    rw [List.filter_eq_nil_iff]
    intro b hb
    simp [h b hb]
  rw [this]
  rfl

example : attributePsk [105] [107] [{ name := "A", tls := 0, addrMatch := true, certOk := false },
                                   { name := "B", tls := 0, addrMatch := false, certOk := false, psk := some ([105], [107]) },
                                   { name := "C", tls := 0, addrMatch := true, certOk := false, psk := some ([105], [107]) }] =
          some { name := "C", tls := 0, addrMatch := true, certOk := false, psk := some ([105], [107]) } := by decide

example : attributeTo true [{ name := "A", tls := 0, addrMatch := true, certOk := false }, { name := "B", tls := 0, addrMatch := false, certOk := true },
                          { name := "C", tls := 0, addrMatch := true, certOk := true }] =
          some { name := "C", tls := 0, addrMatch := true, certOk := true } := by decide

end Rsp.Props.C14
