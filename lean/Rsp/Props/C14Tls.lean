/-
  Property C14 for TLS connections (and, the code having the same structure, DTLS): the block a connection is attributed to lists
  the peer's address; a peer matching no block is attributed to nobody; among the blocks that list it, the first acceptable one wins.
-/
import Rsp.Model.TlsAttr
namespace Rsp.Props.C14
open Rsp.TlsAttr

/-- **C14 (TLS).** Whatever block a connection is attributed to: it is one of the configured blocks, its host list contains the
    peer's address, the peer's chain verified and its certificate meets that block's conditions -/
theorem attribute_sound (trusted : Bool) (bs : List Blk) (b : Blk) (h : attributeTo trusted bs = some b) :
    b ∈ bs ∧ b.addrMatch = true ∧ b.certOk = true ∧ trusted = true := by
  unfold attributeTo at h
  split at h
  · cases h
  · split at h
    · cases h
    · rename_i htr
      have hm := List.mem_of_find?_eq_some h
      have hp := List.find?_some h
      have hc : b ∈ bs ∧ b.addrMatch = true := by
        unfold candidates at hm
        simpa [List.mem_filter] using hm
      simp only [Bool.and_eq_true, decide_eq_true_eq] at hp
      refine ⟨hc.1, hc.2, hp.2, ?_⟩
      cases trusted <;> simp_all

/-- traffic whose source matches no client block of the transport is attributed to nobody (and then nothing of it is parsed) -/
theorem no_match_no_block (trusted : Bool) (bs : List Blk) (h : ∀ b ∈ bs, b.addrMatch = false) : attributeTo trusted bs = none := by
  unfold attributeTo
  have : candidates bs = [] := by
    unfold candidates
    rw [List.filter_eq_nil_iff]
    intro b hb
    simp [h b hb]
  rw [this]
  rfl

/-- … and a peer whose certificate chain does not verify is nobody, whatever blocks list its address -/
theorem untrusted_no_block (bs : List Blk) : attributeTo false bs = none := by
  unfold attributeTo
  split <;> rfl

/-- the FIRST acceptable candidate wins: no block that lists the address, belongs to the handshake's TLS context and accepts the
    certificate stands before the one chosen -/
theorem attribute_first (trusted : Bool) (bs : List Blk) (b first : Blk) (hf : (candidates bs).head? = some first)
    (h : attributeTo trusted bs = some b) :
    ∃ pre post, candidates bs = pre ++ b :: post ∧ ∀ c ∈ pre, ¬ (c.tls = first.tls ∧ c.certOk = true) := by
  unfold attributeTo at h
  rw [hf] at h
  simp only at h
  split at h
  · cases h
  · obtain ⟨pre, post, hsplit, hpre⟩ := List.find?_eq_some_iff_append.mp h |>.2
    refine ⟨pre, post, hsplit, ?_⟩
    intro c hc hcc
    have := hpre c hc
    simp [hcc.1, hcc.2] at this

example : attributeTo true [{ name := "A", tls := 0, addrMatch := true, certOk := false }, { name := "B", tls := 0, addrMatch := false, certOk := true },
                          { name := "C", tls := 0, addrMatch := true, certOk := true }] =
          some { name := "C", tls := 0, addrMatch := true, certOk := true } := by decide

end Rsp.Props.C14
