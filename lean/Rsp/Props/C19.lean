/-
  Property C19 — a failed allocation drops the packet cleanly.
  What the model can carry: the two exits every failure path of `radsrv` takes
  (`goto exit` = release the reader's reference; `goto rmclrqexit` = additionally
  clear the duplicate-cache entry) leave no trace of the request.
  The allocation failures themselves are injected into the real code (see DESIGN §5 C19).
-/
import Rsp.Props.C17
namespace Rsp.Props.C19
open Rsp Rsp.World

/-- `goto exit` when the reader holds the only reference: the object is released exactly once -/
theorem exit_releases_reader_reference (w : World) (o : Nat) (r : Rq) (h : getRq w o = some r) (h1 : r.refs = 1) :
    getRq (freerq w o) o = none ∧ (freerq w o).freed = w.freed + 1 :=
  C17.freerq_last w o r h (by omega)

theorem getCli_updCli_same (w : World) (ci : Nat) (f : Client → Client) (c : Client) (h : getCli w ci = some c) :
    getCli (updCli w ci f) ci = some (f c) := by
  unfold getCli updCli at *
  rw [h]
  simp only [List.getElem?_set]
  have : ci < w.clients.length := by
    rcases Nat.lt_or_ge ci w.clients.length with hlt | hge
    · exact hlt
    · rw [List.getElem?_eq_none hge] at h; cases h
  simp [this]

/-- `rmclientrq`: the duplicate-cache entry of that identifier is empty afterwards … -/
theorem rmclientrq_clears_cache (w : World) (o id ci : Nat) (r : Rq) (c : Client) (o' : Nat)
    (hr : getRq w o = some r) (hf : r.frm = some ci) (hc : getCli w ci = some c) (hid : id < c.cache.length)
    (he : c.cache.getD id none = some o') :
    ∃ c', getCli (rmclientrq w o id) ci = some c' ∧ c'.cache.getD id none = none := by
  unfold rmclientrq
  rw [hr]; simp only [hf, hc, he]
  refine ⟨{ c with cache := c.cache.set id none }, ?_, ?_⟩
  · have h1 := getCli_updCli_same w ci (fun c => { c with cache := c.cache.set id none }) c hc
    -- updRq and freerq do not touch the clients
    have h2 : ∀ (w' : World) (o : Nat) (f : Rq → Rq), getCli (updRq w' o f) ci = getCli w' ci := by
      intro w' o f; rfl
    have h3 : ∀ (w' : World) (o : Nat), getCli (freerq w' o) ci = getCli w' ci := by
      intro w' o; unfold freerq
      cases getRq w' o with
      | none => rfl
      | some r => simp only; split <;> rfl
    rw [h3, h2, h1]
  · simp [List.getD_eq_getElem?_getD, List.getElem?_set, hid]

/-- … and no other identifier's entry is touched -/
theorem rmclientrq_other_ids (w : World) (o id ci : Nat) (j : Nat) (hj : j ≠ id) (c : Client) (hc : getCli w ci = some c) :
    ∃ c', getCli (rmclientrq w o id) ci = some c' ∧ c'.cache.getD j none = c.cache.getD j none := by
  have h3 : ∀ (w' : World) (o : Nat), getCli (freerq w' o) ci = getCli w' ci := by
    intro w' o; unfold freerq
    cases getRq w' o with
    | none => rfl
    | some r => simp only; split <;> rfl
  unfold rmclientrq
  cases hr : getRq w o with
  | none => exact ⟨c, hc, rfl⟩
  | some r =>
    simp only
    cases hf : r.frm with
    | none => exact ⟨c, hc, rfl⟩
    | some ci' =>
      simp only
      cases hc' : getCli w ci' with
      | none => exact ⟨c, hc, rfl⟩
      | some c2 =>
        simp only
        cases he : c2.cache.getD id none with
        | none => exact ⟨c, hc, rfl⟩
        | some o' =>
          simp only
          rw [h3]
          by_cases hci : ci' = ci
          · subst hci
            rw [hc] at hc'; cases hc'
            refine ⟨{ c with cache := c.cache.set id none }, ?_, ?_⟩
            · exact getCli_updCli_same w ci' _ c hc
            · have : ¬ id = j := fun h => hj h.symm
              simp [List.getD_eq_getElem?_getD, List.getElem?_set, this]
          · refine ⟨c, ?_, rfl⟩
            show getCli (updRq (updCli w ci' _) o _) ci = some c
            unfold updRq getCli updCli
            rw [show w.clients[ci']? = some c2 from hc']
            simp only [List.getElem?_set]
            rw [if_neg hci]
            exact hc

end Rsp.Props.C19
