/-
  Property C09 — server selection fails over in configured order and fails back.
  Obligations: for EVERY list (any length), the model of `choosesrvconf` meets the
  selection spec written from the property text; the side effect only lowers
  saturated counters; fail-back.
-/
import Rsp.Lemmas.Choose
namespace Rsp.Props.C09
open Rsp.Choose Rsp.Spec

/-- The loop as a whole: early return = first immediately selectable entry of the
    whole list; otherwise the invariant holds for the whole list. -/
theorem scan_inv (pre rest : List Entry) (acc : Acc) (hI : Inv pre acc) (hw : ∀ e ∈ rest, wfE e) :
    match scan rest pre.length acc with
    | .inl k => (pre ++ rest).findIdx? immediate = some k
    | .inr acc' => Inv (pre ++ rest) acc' := by
  induction rest generalizing pre acc with
  | nil => simpa [scan] using hI
  | cons e rest ih =>
    have hwe : wfE e := hw e (by simp)
    have hwr : ∀ e' ∈ rest, wfE e' := fun e' h => hw e' (by simp [h])
    rcases step pre rest e acc hI hwe with ⟨himm, hs⟩ | ⟨hni, acc', hI', hs⟩
    · rw [hs]
      have hnone : pre.findIdx? immediate = none := by
        rw [List.findIdx?_eq_none_iff]; intro x hx; simp [hI.noImm x hx]
      rw [List.findIdx?_append, hnone]
      simp [List.findIdx?_cons, himm]
    · rw [hs]
      have := ih (pre ++ [e]) acc' hI' hwr
      simpa using this

/-- **C09 selection theorem.** For every list of servers with states drawn from the
    server-state enum and any unanswered-request counts, the selected server
    satisfies the spec (clauses 1–4 of the property). No bound on the list length. -/
theorem choose_meets_spec (l : List Entry) (hw : ∀ e ∈ l, wfE e) :
    chooseOk l (choose l).1 = true := by
  have h := scan_inv [] l {} inv_nil hw
  simp only [List.length_nil, List.nil_append] at h
  unfold choose
  cases hs : scan l 0 {} with
  | inl k =>
    rw [hs] at h
    simp [chooseOk, h]
  | inr acc =>
    rw [hs] at h
    obtain ⟨hN, hF, hB⟩ := h
    have hnone : l.findIdx? immediate = none := by
      rw [List.findIdx?_eq_none_iff]; intro x hx; simp [hN x hx]
    simp only [chooseOk, hnone]
    cases hb : acc.best with
    | some b =>
      simp only [hb] at hB
      obtain ⟨x, hx, hux, hlx, hmin⟩ := hB
      have hany : l.any usable = true := by
        rw [List.any_eq_true]; exact ⟨x, List.mem_of_getElem? hx, hux⟩
      simp only [hany, if_true, hx, hux, Bool.true_and]
      rw [List.all_eq_true]
      intro e' he'
      cases hue' : usable e' with
      | false => simp
      | true => simp; rw [hlx]; exact hmin e' he' hue'
    | none =>
      simp only [hb] at hB
      have hany : l.any usable = false := by
        rw [List.any_eq_false]; intro x hx; simp [hB x hx]
      simp only [hany]
      simp only [Bool.false_eq_true, if_false, hF, beq_iff_eq]
      -- with no usable entry, "not failing" and "starting" coincide on every entry
      apply findIdx?_congr_mem
      intro x hx
      have hu := hB x hx
      have hwx := hw x hx
      cases x with
      | none => simp [usable] at hu
      | some p =>
        obtain ⟨st, lost⟩ := p
        simp only [usable, wfE, notFailing, starting, stConnected, stBlocking, stFailing, stStartup, stReconnecting] at *
        have hu' : ¬ (st = 2 ∨ st = 1) := of_decide_eq_false hu
        have : (¬ st = 4) ↔ (st = 0 ∨ st = 3) := by omega
        exact decide_eq_decide.mpr this

/-- A failed server is never selected. -/
theorem never_failing (l : List Entry) (hw : ∀ e ∈ l, wfE e) (i : Nat) (lost : Nat)
    (hsel : (choose l).1 = some i) (hi : l[i]? = some (some (stFailing, lost))) : False := by
  have h := choose_meets_spec l hw
  rw [hsel] at h
  unfold chooseOk at h
  cases hf : l.findIdx? immediate with
  | some k =>
    simp only [hf, beq_iff_eq, Option.some.injEq] at h
    subst h
    have := List.findIdx?_eq_some_iff_getElem.mp hf
    obtain ⟨hk, hp, _⟩ := this
    have : l[i] = some (stFailing, lost) := by
      have := List.getElem?_eq_getElem hk; rw [this] at hi; exact Option.some.inj hi
    rw [this] at hp; simp [immediate, stFailing, stConnected, stBlocking] at hp
  | none =>
    simp only [hf] at h
    split at h
    · simp [hi, usable, stFailing, stConnected, stBlocking] at h
    · simp only [beq_iff_eq] at h
      have := List.findIdx?_eq_some_iff_getElem.mp h.symm
      obtain ⟨hk, hp, _⟩ := this
      have : l[i] = some (stFailing, lost) := by
        have := List.getElem?_eq_getElem hk; rw [this] at hi; exact Option.some.inj hi
      rw [this] at hp; simp [starting, stFailing, stStartup, stReconnecting] at hp

/-- The side effect only lowers saturated counters to MAX_LOSTRQS-1. -/
theorem choose_lost_ok (l : List Entry) : lostOk l (choose l).2 = true := by
  have hid : ∀ l : List Entry, lostOk l l = true := by
    intro l
    simp only [lostOk, beq_self_eq_true, Bool.true_and, List.all_eq_true]
    intro p hp
    have : p.1 = p.2 := by
      have := List.of_mem_zip hp
      induction l with
      | nil => simp at hp
      | cons a t ih =>
        simp only [List.zip_cons_cons, List.mem_cons] at hp
        rcases hp with rfl | hp
        · rfl
        · exact ih hp (List.of_mem_zip hp)
    obtain ⟨a, b⟩ := p
    simp only at this; subst this
    cases a with
    | none => rfl
    | some q => obtain ⟨st, lo⟩ := q; simp
  have hcl : ∀ l : List Entry, lostOk l (clamp l) = true := by
    intro l
    simp only [lostOk, clamp, List.length_map, beq_self_eq_true, Bool.true_and, List.all_eq_true]
    intro p hp
    induction l with
    | nil => simp at hp
    | cons a t ih =>
      simp only [List.map_cons, List.zip_cons_cons, List.mem_cons] at hp
      rcases hp with rfl | hp
      · cases a with
        | none => rfl
        | some q =>
          obtain ⟨st, lo⟩ := q
          simp only [Option.map_some]
          by_cases h : lo ≥ maxLost <;> simp [h]
      · exact ih hp
  unfold choose
  split
  · exact hid l
  · dsimp only; split
    · exact hcl l
    · exact hid l

/-- **Fail-back.** If an earlier server is connected (or blocking-startup) and its
    unanswered count is back to zero, and nothing before it is immediately
    selectable, it is the one chosen — whatever the counts of the later servers. -/
theorem failback (l : List Entry) (hw : ∀ e ∈ l, wfE e) (i : Nat)
    (hi : l.findIdx? immediate = some i) : (choose l).1 = some i := by
  have h := choose_meets_spec l hw
  simp only [chooseOk, hi, beq_iff_eq] at h
  exact h

/-- Non-vacuity and the regression witness of the defect fixed in /repo
    (`bestlostrqs` was not updated): three connected servers with 5, 3 and 4
    unanswered requests select the second. -/
example : (choose [some (2, 5), some (2, 3), some (2, 4)]).1 = some 1 := by decide
example : (choose [some (4, 0), some (0, 0), some (3, 2)]).1 = some 1 := by decide
example : (choose [some (2, 16), some (2, 16)]) = (some 0, [some (2, 15), some (2, 15)]) := by decide
example : chooseOk [some (2, 5), some (2, 3), some (2, 4)] (some 2) = false := by decide

/-- **a server configured for blocking start-up stays eligible while its first connection is being set up**: entering the
    connecter does not take it out of the blocking-start-up state, so `choosesrvconf` still treats it like a connected one -/
theorem connectStart_blocking : Choose.connectStart Choose.stBlocking = Choose.stBlocking := by decide

/-- only a connected server is marked as reconnecting by a connection attempt -/
theorem connectStart_reconnecting_iff (st : Nat) :
    Choose.connectStart st = Choose.stReconnecting ↔ (st = Choose.stConnected ∨ st = Choose.stReconnecting) := by
  unfold Choose.connectStart Choose.stConnected Choose.stReconnecting
  constructor
  · intro h; split at h
    · left; assumption
    · right; exact h
  · intro h; rcases h with h | h
    · simp [h]
    · subst h; simp

/-- The reset side effect happens at most once: choosing again on the list `choosesrvconf`
    left behind changes no counter (any list, any length) — the counters it lowered are below
    MAX_LOSTRQS afterwards, so the realm is not reset again until a request is lost. -/
theorem choose_side_effect_once (l : List Entry) : (choose (choose l).2).2 = (choose l).2 := by
  by_cases h : (choose l).2 = l
  · rw [h, h]
  · have : (choose l).2 = clamp l := by
      unfold choose at h ⊢
      split at h
      · exact absurd rfl h
      · next acc hs =>
        dsimp only at h ⊢
        by_cases hc : acc.best.isSome = true ∧ acc.bestLost ≥ maxLost
        · rw [if_pos hc]
        · rw [if_neg hc] at h; exact absurd rfl h
    rw [this]; exact choose_low _ (clamp_low l)

/-- while no counter has reached MAX_LOSTRQS a selection has no side effect at all -/
theorem choose_no_side_effect_below_max (l : List Entry) (hl : LowAll l) : (choose l).2 = l :=
  choose_low l hl

/-- Non-vacuity: two connected servers saturated at 16 and 20: the second is chosen and both are
    reset to 15; the next selection leaves them there. -/
example : choose [some (stConnected, 20), some (stConnected, 16)] =
    (some 1, [some (stConnected, 15), some (stConnected, 15)]) := by decide
example : (choose (choose [some (stConnected, 20), some (stConnected, 16)]).2).2 =
    [some (stConnected, 15), some (stConnected, 15)] := by decide

end Rsp.Props.C09
