/-
  Property C18 — logs and F-Ticks cannot be forged by peers and honour the MAC
  privacy modes. All theorems hold for arbitrary hash functions.
-/
import Rsp.Lemmas.Log
namespace Rsp.Props.C18
open Rsp Rsp.Log Rsp.Spec

/-- `radattr2ascii` meets its spec for every input: only printable octets, and
    exactly the %xx escape of the input. -/
theorem ascii_meets_spec (v : Bytes) : asciiOk v (ascii v) = true := by
  unfold asciiOk
  rw [ascii_printable, ← ascii_eq_ref]; simp

theorem msgTypeName_printable (c : Nat) : allPrintable (msgTypeName c) = true := by
  unfold msgTypeName; split <;> decide

theorem logMacField_printable (H : HashFns) (m : MacMode) (k : Option Bytes) (sid : Bytes)
    (hs : allPrintable sid = true) : allPrintable (logMacField H m k sid) = true := by
  unfold logMacField
  cases m <;> simp only
  · decide
  · exact allPrintable_take _ _ hs
  · split
    · exact hs
    · rw [allPrintable_append, allPrintable_take _ _ hs, hashmac_printable]; rfl
  · split
    · exact hs
    · rw [allPrintable_append, allPrintable_take _ _ hs, hashmac_printable]; rfl
  · exact hashmac_printable _ _ _ _
  · exact hashmac_printable _ _ _ _

theorem fromAt_printable (u r : Bytes) (hu : allPrintable u = true) (h : fromAt u = some r) :
    allPrintable r = true := by
  induction u with
  | nil => simp [fromAt] at h
  | cons c t ih =>
    simp only [fromAt] at h
    split at h
    · cases h; exact hu
    · simp only [allPrintable, List.all_cons, Bool.and_eq_true] at hu
      exact ih hu.2 h

theorem optField_printable (pre post : Bytes) (o : Option Bytes) (hp : allPrintable pre = true)
    (hq : allPrintable post = true) (ho : ∀ v, o = some v → allPrintable v = true) :
    allPrintable (optField pre post o) = true := by
  unfold optField
  cases o with
  | none => rfl
  | some v => simp only [allPrintable_append, hp, hq, ho v rfl, Bool.and_self]

theorem map_ascii_printable (o : Option Bytes) : ∀ v, attrAscii o = some v → allPrintable v = true := by
  intro v hv
  unfold attrAscii at hv
  split at hv
  · cases hv
  · cases hv
  · cases hv; exact ascii_printable _

theorem logUser_printable (fu : Bool) (u : Option Bytes) (lu : Bytes) (h : logUser fu u = some lu) :
    allPrintable lu = true := by
  unfold logUser at h
  cases hx : attrAscii u with
  | none => simp [hx] at h
  | some x =>
    have hp := map_ascii_printable u x hx
    simp only [hx] at h
    split at h
    · cases h; exact hp
    · exact fromAt_printable _ _ hp h

theorem stationField_printable (H : HashFns) (m : MacMode) (k sid : Option Bytes) :
    allPrintable (stationField H m k sid) = true := by
  unfold stationField
  apply optField_printable _ _ _ (by decide) (by decide)
  intro v hv
  cases hx : attrAscii sid with
  | none => simp [hx] at hv
  | some x => simp [hx] at hv; rw [← hv]; exact logMacField_printable H _ _ _ (map_ascii_printable sid x hx)

/-- **No forged lines (reply log).** Whatever the attribute values in the request
    and the reply (any octets, any lengths), if the configured names are
    printable then every octet of the log line is printable ASCII: a peer can
    neither start a new line nor inject control characters. -/
theorem replyLogLine_printable (H : HashFns) (i : ReplyLogIn) (line : Bytes)
    (hs : allPrintable i.serverName = true) (hc : allPrintable i.clientName = true)
    (ha : allPrintable i.clientAddr = true) (h : replyLogLine H i = some line) :
    allPrintable line = true := by
  unfold replyLogLine at h
  have hst := stationField_printable H i.mode i.key i.stationId
  have hcui := optField_printable (b! " cui ") [] (attrAscii i.cui) (by decide) (by decide) (map_ascii_printable _)
  have hop := optField_printable (b! " operator ") [] (attrAscii i.operatorName) (by decide) (by decide) (map_ascii_printable _)
  have hrm := optField_printable (b! " (") (b! ")") (attrAscii i.replyMsg) (by decide) (by decide) (map_ascii_printable _)
  have hc1 : allPrintable (b! " for user ") = true := by decide
  have hc2 : allPrintable (b! " from ") = true := by decide
  have hc3 : allPrintable (b! " to ") = true := by decide
  have hc4 : allPrintable (b! " (") = true := by decide
  have hc5 : allPrintable (b! ")") = true := by decide
  have hc6 : allPrintable (b! " (response to ") = true := by decide
  have hc7 : allPrintable (b! ") from ") = true := by decide
  have hc8 : allPrintable (b! "missing response to ") = true := by decide
  have hc9 : allPrintable (b! ") to ") = true := by decide
  simp only at h
  split at h
  · split at h
    · next lu hlueq =>
      cases h
      have := logUser_printable _ _ lu hlueq
      simp only [allPrintable_append, this, hst, hcui, hop, hrm, hs, hc, ha, msgTypeName_printable,
                 hc1, hc2, hc3, hc4, hc5, Bool.and_self]
    · cases h
      simp only [allPrintable_append, hs, hc, ha, msgTypeName_printable, hc3, hc4, hc5, hc6, hc7, Bool.and_self]
  · split at h
    · cases h
      have hg : allPrintable ((logUser i.fullUser i.userName).getD (b! "(null)")) = true := by
        cases hx : logUser i.fullUser i.userName with
        | none => decide
        | some lu => exact logUser_printable _ _ lu hx
      simp only [allPrintable_append, hg, hst, hs, hc, ha, msgTypeName_printable, hc1, hc2, hc4, hc8, hc9, Bool.and_self]
    · cases h

theorem afterLastAt_printable (u : Bytes) (hu : allPrintable u = true) : allPrintable (afterLastAt u) = true := by
  unfold afterLastAt
  split
  · simp only [allPrintable, List.all_eq_true] at hu ⊢
    intro x hx
    have : x ∈ u := by
      have h1 := List.mem_reverse.mp hx
      have h2 := (List.takeWhile_sublist _).subset h1
      exact List.mem_reverse.mp h2
    exact hu x this
  · rfl

theorem fticksMacField_printable (H : HashFns) (m : MacMode) (k : Option Bytes) (sid : Option Bytes)
    (hs : ∀ v, sid = some v → allPrintable v = true) : allPrintable (fticksMacField H m k sid) = true := by
  unfold fticksMacField
  cases m <;> simp only
  · decide
  all_goals
    cases sid with
    | none => rfl
    | some v =>
      have hv := hs v rfl
      simp only
      first
        | exact allPrintable_take _ _ hv
        | exact hashmac_printable _ _ _ _
        | (split
           · exact hv
           · rw [allPrintable_append, allPrintable_take _ _ hv, hashmac_printable]; rfl)

/-- **No forged records (F-Ticks).** Same statement for the F-Ticks record. -/
theorem fticksLine_printable (H : HashFns) (i : FticksIn)
    (hp : allPrintable i.prefix_ = true) (hv : allPrintable i.viscountry = true)
    (hi : ∀ v, i.visinst = some v → allPrintable v = true) (hc : allPrintable i.clientName = true) :
    allPrintable (fticksLine H i) = true := by
  unfold fticksLine
  have hrealm : allPrintable (fticksRealm i.userName) = true := by
    unfold fticksRealm
    cases hx : attrAscii i.userName with
    | none => rfl
    | some u => exact afterLastAt_printable _ (map_ascii_printable _ u hx)
  have hvis : allPrintable (fticksVisinst i.full i.visinst i.clientName) = true := by
    unfold fticksVisinst
    split
    · apply allPrintable_take
      have : allPrintable (i.visinst.getD i.clientName) = true := by
        cases hx : i.visinst with
        | none => exact hc
        | some v => exact hi v hx
      rw [allPrintable_append, allPrintable_append, this]; decide
    · rfl
  have hmac := fticksMacField_printable H i.mode i.key (attrAscii i.stationId) (map_ascii_printable _)
  have hres : allPrintable (resultText i.accept) = true := by unfold resultText; split <;> decide
  have hc1 : allPrintable (b! "#REALM=") = true := by decide
  have hc2 : allPrintable (b! "#VISCOUNTRY=") = true := by decide
  have hc3 : allPrintable (b! "#") = true := by decide
  have hc4 : allPrintable (b! "CSI=") = true := by decide
  have hc5 : allPrintable (b! "#RESULT=") = true := by decide
  simp only [allPrintable_append, hp, hv, hrealm, hvis, hmac, hres, hc1, hc2, hc3, hc4, hc5, Bool.and_self]

/-! ### MAC privacy modes -/

/-- Static: the field is a constant, whatever the identifier. -/
theorem static_constant (H : HashFns) (k : Option Bytes) (sid sid' : Bytes) :
    logMacField H .static k sid = logMacField H .static k sid' ∧
    fticksMacField H .static k (some sid) = fticksMacField H .static k (some sid') := ⟨rfl, rfl⟩

/-- Fully(Key)Hashed: the field depends on the identifier only through the hash
    of its normalisation (lower-cased hex digits up to the first ';'). -/
theorem fully_hashed_only_hash (H : HashFns) (k : Option Bytes) (sid sid' : Bytes)
    (h : specNormalise sid = specNormalise sid') :
    logMacField H .fullyHashed k sid = logMacField H .fullyHashed k sid' ∧
    logMacField H .fullyKeyHashed k sid = logMacField H .fullyKeyHashed k sid' ∧
    fticksMacField H .fullyHashed k (some sid) = fticksMacField H .fullyHashed k (some sid') ∧
    fticksMacField H .fullyKeyHashed k (some sid) = fticksMacField H .fullyKeyHashed k (some sid') := by
  simp only [logMacField, fticksMacField, hashmac, normalise_eq_spec, h, and_self]

/-- Vendor(Key)Hashed: beyond the first nine characters the field depends on the
    identifier only through that hash. -/
theorem vendor_hashed_nine (H : HashFns) (k : Option Bytes) (sid sid' : Bytes)
    (h9 : sid.take 9 = sid'.take 9) (hl : 9 ≤ sid.length) (hl' : 9 ≤ sid'.length)
    (h : specNormalise sid = specNormalise sid') :
    logMacField H .vendorHashed k sid = logMacField H .vendorHashed k sid' ∧
    logMacField H .vendorKeyHashed k sid = logMacField H .vendorKeyHashed k sid' ∧
    fticksMacField H .vendorHashed k (some sid) = fticksMacField H .vendorHashed k (some sid') ∧
    fticksMacField H .vendorKeyHashed k (some sid) = fticksMacField H .vendorKeyHashed k (some sid') := by
  have n1 : ¬ sid.length < 9 := by omega
  have n2 : ¬ sid'.length < 9 := by omega
  simp only [logMacField, fticksMacField, hashmac, normalise_eq_spec, h, h9, n1, n2, if_false, and_self]

/-- the hashed part is the full lower-case hex of the 32-octet hash (reply log, out_len 65) -/
theorem formatHash_full (h : Bytes) (hl : h.length = 32) : formatHash h 65 = refHex h := by
  unfold formatHash
  simp only [show ¬ (65 < 3) by decide, if_false, show (65 - 1) / 2 = 32 by decide]
  rw [hexOf_eq_ref]
  congr 1
  apply List.ext_getElem
  · simp [hl]
  · intro n h1 h2
    simp only [List.getElem_map, List.getElem_range]
    have hn : n < 32 := by simpa using h1
    rw [Nat.mod_eq_of_lt hn, List.getD_eq_getElem?_getD, List.getElem?_eq_getElem (by omega)]
    rfl

/-- non-vacuity -/
example : ascii [65, 0, 10, 127, 37] = b! "A%00%0a%7f%" := by decide
example : specNormalise (b! "00-1A-2b;ssid") = b! "001a2b" := by decide

end Rsp.Props.C18
