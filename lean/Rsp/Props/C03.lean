/-
  Property C03 — hidden attributes are re-encrypted hop by hop without changing
  the plaintext; invalid ciphertext lengths are rejected (message dropped).
  Every theorem holds for EVERY hash function with 16-octet output: no
  cryptographic assumption is made.
-/
import Rsp.Lemmas.Crypt
set_option linter.unusedSectionVars false
namespace Rsp.Props.C03
open Rsp Rsp.Crypt Rsp.Spec

variable (md5 : Bytes → Bytes) (hmd5 : ∀ x, (md5 x).length = 16)
include hmd5

theorem pwdLen_guard (len : Nat) : pwdLenBad len = !pwdLenValid len := by
  unfold pwdLenBad pwdLenValid
  by_cases h1 : len < 16 <;> by_cases h2 : len > 128 <;> by_cases h3 : len % 16 = 0 <;> simp [h1, h2, h3] <;> omega

theorem msmppLen_guard (len : Nat) : msmppLenBad len = !msmppLenValid len := by
  unfold msmppLenBad msmppLenValid
  by_cases h1 : len < 18 <;> by_cases h3 : (len - 2) % 16 = 0 <;> simp [h1, h3] <;> omega

/-- **User-Password / Tunnel-Password.** For all plaintexts, all ciphertext
    lengths, all secrets of length < 256, all authenticators and salts:
    `pwdrecrypt` meets the spec — valid length ⇒ the output decrypts under the
    new secret/authenticator/salt to exactly what the input decrypts to under the
    old ones; invalid length ⇒ rejected. -/
theorem pwdrecrypt_meets_spec (pwd oldsec newsec oldauth newauth oldsalt newsalt : Bytes)
    (ho : oldsec.length < 256) (hn : newsec.length < 256) :
    pwdrecryptOk md5 pwd oldsec newsec oldauth newauth oldsalt newsalt
      (pwdrecrypt md5 pwd oldsec newsec oldauth newauth oldsalt newsalt) = true := by
  unfold pwdrecryptOk pwdrecrypt
  rw [pwdLen_guard md5 hmd5]
  cases hv : pwdLenValid pwd.length with
  | false => simp
  | true =>
    simp only [Bool.not_true, Bool.false_eq_true, if_false, if_true]
    have hlen : pwd.length = 16 * (pwd.length / 16) := by
      unfold pwdLenValid at hv; simp at hv; omega
    have ho' : oldsec.take (oldsec.length % 256) = oldsec := by
      rw [Nat.mod_eq_of_lt ho]; exact List.take_length
    have hn' : newsec.take (newsec.length % 256) = newsec := by
      rw [Nat.mod_eq_of_lt hn]; exact List.take_length
    unfold pwdcrypt hiddenPlain
    rw [ho', hn']
    have h := recrypt_core md5 hmd5 oldsec oldauth oldsalt newsec newauth newsalt pwd (pwd.length / 16) hlen
    simp only at h
    obtain ⟨h1, h2⟩ := h
    -- the intermediate plaintext has the same length as the ciphertext
    have hpl : (pwdLoop md5 false oldsec oldauth oldsalt (pwd.length / 16) pwd).length = pwd.length := by
      rw [pwdLoop_dec md5 hmd5, flatten_length16 _ (rfcDecrypt_all16 md5 hmd5 _ _ _ (blocks_all16 _ _ hlen)),
          rfcDecrypt_length md5 hmd5, blocks_length]; omega
    rw [hpl, h1, h2]
    simp

/-- **MS-MPPE-Send/Recv-Key.** Same statement for `msmpprecrypt`; the salt is
    carried over unchanged. -/
theorem msmpprecrypt_meets_spec (v oldsec newsec oldauth newauth : Bytes)
    (ho : oldsec.length < 256) (hn : newsec.length < 256) :
    msmpprecryptOk md5 v oldsec newsec oldauth newauth
      (msmpprecrypt md5 v oldsec newsec oldauth newauth) = true := by
  unfold msmpprecryptOk msmpprecrypt
  rw [msmppLen_guard md5 hmd5]
  cases hv : msmppLenValid v.length with
  | false => simp
  | true =>
    simp only [Bool.not_true, Bool.false_eq_true, if_false, if_true]
    have hv2 : 18 ≤ v.length ∧ (v.length - 2) % 16 = 0 := by
      unfold msmppLenValid at hv; simpa using hv
    have hdl : (v.drop 2).length = v.length - 2 := by simp
    have hlen : (v.drop 2).length = 16 * ((v.drop 2).length / 16) := by rw [hdl]; omega
    have ho' : oldsec.take (oldsec.length % 256) = oldsec := by
      rw [Nat.mod_eq_of_lt ho]; exact List.take_length
    have hn' : newsec.take (newsec.length % 256) = newsec := by
      rw [Nat.mod_eq_of_lt hn]; exact List.take_length
    rw [ho', hn']
    have h := recrypt_core md5 hmd5 oldsec oldauth (v.take 2) newsec newauth (v.take 2) (v.drop 2) ((v.drop 2).length / 16) hlen
    simp only at h
    obtain ⟨h1, h2⟩ := h
    have htl : (v.take 2).length = 2 := by simp; omega
    unfold hiddenPlain
    simp only [List.take_left' htl, List.drop_left' htl, List.length_append, htl, h1, h2]
    have : 2 + (v.drop 2).length = v.length := by rw [hdl]; omega
    simp; omega

/-- An invalid length never yields a value: the caller drops the message. -/
theorem pwdrecrypt_rejects (pwd oldsec newsec oldauth newauth oldsalt newsalt : Bytes)
    (h : pwdLenValid pwd.length = false) :
    pwdrecrypt md5 pwd oldsec newsec oldauth newauth oldsalt newsalt = none := by
  unfold pwdrecrypt; rw [pwdLen_guard md5 hmd5, h]; simp

theorem msmpprecrypt_rejects (v oldsec newsec oldauth newauth : Bytes)
    (h : msmppLenValid v.length = false) :
    msmpprecrypt md5 v oldsec newsec oldauth newauth = none := by
  unfold msmpprecrypt; rw [msmppLen_guard md5 hmd5, h]; simp

end Rsp.Props.C03

