/-
  Property C16 — stream framing is independent of how the bytes are delivered.
  Proved for the reader without timeout (`tcpserverrd`): the output is a function of the
  octet stream alone.
-/
import Rsp.Model.Stream
namespace Rsp.Props.C16
open Rsp Rsp.Stream

/-- no end-of-stream event inside the script (the stream ends where the script ends) -/
def NoEof (l : List Ev) : Prop := ∀ e ∈ l, e ≠ .eof

theorem noEof_tail {e : Ev} {l : List Ev} (h : NoEof (e :: l)) : NoEof l :=
  fun x hx => h x (by simp [hx])

/-- what a blocking wait yields: either the next non-empty write — and the octets still to come are
    unchanged — or, when no octet will ever come, the failure of the wait -/
theorem pollScript_blocking (l : List Ev) (h : NoEof l) :
    (∃ b r, pollScript true l = (.ready, b, r, false) ∧ b ≠ [] ∧ b ++ dataOf r = dataOf l ∧ NoEof r) ∨
    (pollScript true l = (.hup, [], [], false) ∧ dataOf l = []) := by
  induction l with
  | nil => right; simp [pollScript, dataOf]
  | cons e r ih =>
    cases e with
    | data b =>
      by_cases hb : b = []
      · subst hb
        have := ih (noEof_tail h)
        simpa [pollScript, dataOf] using this
      · left
        refine ⟨b, r, ?_, hb, by simp [dataOf], noEof_tail h⟩
        simp [pollScript, hb]
    | stall =>
      have := ih (noEof_tail h)
      simpa [pollScript, dataOf] using this
    | eof => exact absurd rfl (h .eof (by simp))

/-- well-formed socket state for the blocking reader -/
structure Good (s : Sock) : Prop where
  open_ : s.closed = false
  noEof : NoEof s.script

theorem poll_blocking (s : Sock) (g : Good s) :
    (∃ s', poll true s = (.ready, s') ∧ s'.buf ≠ [] ∧ pending s' = pending s ∧ Good s') ∨
    (∃ s', poll true s = (.hup, s') ∧ pending s = []) := by
  unfold poll
  rw [g.open_]
  by_cases hb : s.buf = []
  · simp only [hb, List.isEmpty_nil, Bool.not_true]
    rcases pollScript_blocking s.script g.noEof with ⟨b, r, hp, hbne, hd, hn⟩ | ⟨hp, hd⟩
    · left
      refine ⟨{ buf := b, script := r, closed := false }, ?_, hbne, ?_, ⟨rfl, hn⟩⟩
      · simp [hp]
      · simp [pending, hb, hd]
    · right
      exact ⟨{ buf := [], script := [], closed := false }, by simp [hp], by simp [pending, hb, hd]⟩
  · left
    have : s.buf.isEmpty = false := by cases hs : s.buf <;> simp_all
    simp only [this, Bool.not_false]
    exact ⟨s, by simp, hb, rfl, g⟩

/-- **reading exactly n octets without timeout**: succeeds with the next `num - |acc|` octets of the stream
    when that many will ever arrive, however they are cut into writes; fails otherwise. -/
theorem readN_blocking (fuel : Nat) (s : Sock) (num : Nat) (acc : Bytes) (g : Good s)
    (hf : num - acc.length + 1 ≤ fuel) :
    (num - acc.length ≤ (pending s).length →
      ∃ s', readN true fuel s num acc = (.ok (acc ++ (pending s).take (num - acc.length)), s') ∧
            pending s' = (pending s).drop (num - acc.length) ∧ Good s') ∧
    ((pending s).length < num - acc.length → ∃ s', readN true fuel s num acc = (.err, s')) := by
  induction fuel generalizing s acc with
  | zero => omega
  | succ fuel ih =>
    unfold readN
    by_cases hdone : num ≤ acc.length
    · simp only [hdone, if_true]
      have h0 : num - acc.length = 0 := by omega
      constructor
      · intro _; exact ⟨s, by simp [h0], by simp [h0], g⟩
      · intro h; omega
    · simp only [hdone, if_false]
      rcases poll_blocking s g with ⟨s', hp, hne, hpend, g'⟩ | ⟨s', hp, hpend⟩
      · rw [hp]
        simp only
        -- one read takes k ≥ 1 octets from the front of the pending stream
        have hk1 : 1 ≤ min (num - acc.length) s'.buf.length := by
          have : 1 ≤ s'.buf.length := by cases hb : s'.buf <;> simp_all
          omega
        let k := min (num - acc.length) s'.buf.length
        have hkle : k ≤ s'.buf.length := Nat.min_le_right _ _
        let s2 : Sock := { s' with buf := s'.buf.drop k }
        have g2 : Good s2 := ⟨g'.open_, g'.noEof⟩
        have hp2 : pending s2 = (pending s).drop k := by
          show s'.buf.drop k ++ dataOf s'.script = (pending s).drop k
          rw [← hpend]
          show _ = (s'.buf ++ dataOf s'.script).drop k
          rw [List.drop_append_of_le_length hkle]
        have htake : s'.buf.take k = (pending s).take k := by
          rw [← hpend]
          show _ = (s'.buf ++ dataOf s'.script).take k
          rw [List.take_append_of_le_length hkle]
        have hbl : s'.buf.length ≤ (pending s).length := by
          rw [← hpend]; simp [pending]
        have hlen2 : (acc ++ s'.buf.take k).length = acc.length + k := by
          simp [List.length_take, Nat.min_eq_left hkle]
        have ih2 := ih s2 (acc ++ s'.buf.take k) g2 (by rw [hlen2]; omega)
        rw [hlen2] at ih2
        constructor
        · intro henough
          have hk_le_need : k ≤ num - acc.length := Nat.min_le_left _ _
          obtain ⟨s3, hr, hp3, g3⟩ := ih2.1 (by rw [hp2, List.length_drop]; omega)
          refine ⟨s3, ?_, ?_, g3⟩
          · rw [hr, hp2, htake]
            congr 1
            rw [List.append_assoc]
            congr 1
            have e1 : num - (acc.length + k) = (num - acc.length) - k := by omega
            have e2 : num - acc.length = k + ((num - acc.length) - k) := by omega
            rw [e1]
            conv => rhs; rw [e2, List.take_add]
          · rw [hp3, hp2, List.drop_drop]
            congr 1; omega
        · intro hshort
          exact ih2.2 (by rw [hp2, List.length_drop]; omega)
      · rw [hp]
        constructor
        · intro henough; rw [hpend] at henough; simp at henough; omega
        · intro _; exact ⟨s', rfl⟩

/-- **C16 (length bounds).** `get_checked_rad_length` is positive exactly for length fields 20..4096, and then
    equals the field; every other 16-bit value yields a non-positive result -/
theorem checkedRadLength_pos_iff (hdr : Bytes) :
    (0 < checkedRadLength hdr ↔ 20 ≤ radLen hdr ∧ radLen hdr ≤ 4096) ∧
    (0 < checkedRadLength hdr → checkedRadLength hdr = (radLen hdr : Int)) := by
  unfold checkedRadLength
  constructor
  · constructor
    · intro h
      split at h
      · omega
      · omega
    · intro h
      have : ¬ (radLen hdr < 20 ∨ radLen hdr > 4096) := by omega
      simp only [this, if_false]
      omega
  · intro h
    split at h
    · omega
    · rename_i hn; simp [hn]

/-- one step of the specification: the first frame of a stream (or why there is none) and what follows it -/
def frameStep (p : Bytes) : Out × Bytes :=
  if p.length < 4 then (.closed (-1), [])
  else
    let len := radLen (p.take 4)
    if len < 20 ∨ len > 4096 then (.closed (if len = 0 then -1 else -(len : Int)), [])
    else if p.length < len then (.closed (-1), [])
    else (.pkt (p.take len), p.drop len)

theorem framesOut_step (fuel : Nat) (p : Bytes) :
    framesOut (fuel + 1) p = match frameStep p with
      | (.pkt b, rest) => .pkt b :: framesOut fuel rest
      | (o, _) => [o] := by
  rw [framesOut]
  unfold frameStep
  by_cases h4 : p.length < 4
  · simp [h4]
  · simp only [h4, if_false]
    by_cases hbad : radLen (p.take 4) < 20 ∨ radLen (p.take 4) > 4096
    · simp only [hbad, if_true]
    · simp only [hbad, if_false]
      by_cases hshort : p.length < radLen (p.take 4)
      · simp [hshort]
      · simp [hshort]

/-- **one message without timeout**: `radtcpget` returns the first frame of the pending stream, whatever the
    segmentation, and leaves exactly the rest pending -/
theorem radGet_blocking (s : Sock) (g : Good s) :
    ∃ s', radGet true s = ((frameStep (pending s)).1, s') ∧
      (∀ b, (frameStep (pending s)).1 = .pkt b → pending s' = (frameStep (pending s)).2 ∧ Good s') := by
  unfold radGet frameStep
  have hr := readN_blocking 5 s 4 [] g (by simp)
  simp only [List.length_nil, Nat.sub_zero, List.nil_append] at hr
  by_cases h4 : (pending s).length < 4
  · obtain ⟨s1, h1⟩ := hr.2 h4
    rw [h1]
    exact ⟨s1, by simp [h4], by intro b hb; simp [h4] at hb⟩
  · obtain ⟨s1, h1, hp1, g1⟩ := hr.1 (by omega)
    rw [h1]
    simp only [h4, if_false]
    by_cases hbad : radLen ((pending s).take 4) < 20 ∨ radLen ((pending s).take 4) > 4096
    · simp only [hbad, if_true]
      exact ⟨s1, rfl, by intro b hb; cases hb⟩
    · simp only [hbad, if_false]
      have hlen20 : 20 ≤ radLen ((pending s).take 4) := by omega
      have hr2 := readN_blocking (radLen ((pending s).take 4) - 4 + 1) s1 (radLen ((pending s).take 4) - 4) [] g1 (by simp)
      simp only [List.length_nil, Nat.sub_zero, List.nil_append] at hr2
      by_cases hshort : (pending s).length < radLen ((pending s).take 4)
      · obtain ⟨s2, h2⟩ := hr2.2 (by rw [hp1, List.length_drop]; omega)
        rw [h2]
        exact ⟨s2, by simp [hshort], by intro b hb; simp [hshort] at hb⟩
      · obtain ⟨s2, h2, hp2, g2⟩ := hr2.1 (by rw [hp1, List.length_drop]; omega)
        rw [h2]
        simp only [hshort, if_false]
        have e : radLen ((pending s).take 4) = 4 + (radLen ((pending s).take 4) - 4) := by omega
        refine ⟨s2, ?_, ?_⟩
        · congr 1
          congr 1
          rw [hp1]
          conv => rhs; rw [e, List.take_add]
        · intro b _
          refine ⟨?_, g2⟩
          rw [hp2, hp1, List.drop_drop]
          congr 1; omega

/-- **C16 (reader without timeout).** For every script of writes and silences, the packets `tcpserverrd`
    extracts and the way the connection ends are the frame decomposition of the octets written — a function
    of the octet stream alone. -/
theorem server_framing_depends_only_on_stream (fuel : Nat) (s : Sock) (g : Good s) :
    serverLoop fuel s = framesOut fuel (pending s) := by
  induction fuel generalizing s with
  | zero => rfl
  | succ fuel ih =>
    rw [framesOut_step]
    unfold serverLoop
    obtain ⟨s', hg, hnext⟩ := radGet_blocking s g
    rw [hg]
    cases ho : (frameStep (pending s)).1 with
    | pkt b =>
      obtain ⟨hp, g'⟩ := hnext b ho
      have : frameStep (pending s) = (.pkt b, (frameStep (pending s)).2) := by rw [← ho]
      rw [this]
      simp only
      rw [ih s' g', hp]
    | timeout =>
      have : frameStep (pending s) = (.timeout, (frameStep (pending s)).2) := by rw [← ho]
      rw [this]
    | closed c =>
      have : frameStep (pending s) = (.closed c, (frameStep (pending s)).2) := by rw [← ho]
      rw [this]

/-- **C16 (segmentation independence).** Two deliveries of the same octets — cut into writes differently,
    with silences anywhere — give the same packets and the same end. -/
theorem segmentation_independent (fuel : Nat) (e1 e2 : List Ev) (h1 : NoEof e1) (h2 : NoEof e2)
    (hsame : dataOf e1 = dataOf e2) :
    serverLoop fuel { script := e1 } = serverLoop fuel { script := e2 } := by
  rw [server_framing_depends_only_on_stream fuel _ ⟨rfl, h1⟩, server_framing_depends_only_on_stream fuel _ ⟨rfl, h2⟩]
  simp [pending, hsame]

/-- non-vacuity: two different deliveries of one 20-octet packet -/
example : serverLoop 3 { script := [.data [1, 1, 0, 20], .stall, .data (List.replicate 16 7)] } =
          serverLoop 3 { script := [.data ([1, 1, 0, 20] ++ List.replicate 16 7)] } := by decide

end Rsp.Props.C16

namespace Rsp.Props.C16
open Rsp Rsp.Stream

/-! ### the reader with timeout (`tcpclientrd`): what is extracted is always a prefix of the stream's framing -/

theorem pollScript_nb (l : List Ev) :
    match pollScript false l with
    | (.ready, b, r, c) => b ≠ [] ∧ b ++ dataOf r = dataOf l ∧ c = false
    | (.timeout, b, r, c) => b = [] ∧ dataOf r = dataOf l ∧ c = false
    | (.hup, _, _, _) => True := by
  induction l with
  | nil => simp [pollScript, dataOf]
  | cons e r ih =>
    cases e with
    | data b =>
      by_cases hb : b = []
      · subst hb
        simpa [pollScript, dataOf] using ih
      · simp [pollScript, hb, dataOf]
    | stall => simp [pollScript, dataOf]
    | eof => simp [pollScript]

theorem poll_nb (s : Sock) :
    match poll false s with
    | (.ready, s') => s'.buf ≠ [] ∧ pending s' = pending s
    | (.timeout, s') => s'.buf = [] ∧ pending s' = pending s
    | (.hup, _) => True := by
  unfold poll
  by_cases hc : s.closed = true
  · simp [hc]
  · simp only [hc, if_false]
    by_cases hb : s.buf = []
    · simp only [hb, List.isEmpty_nil, Bool.not_true, if_false]
      have := pollScript_nb s.script
      generalize pollScript false s.script = res at this
      obtain ⟨p, b, r, c⟩ := res
      cases p with
      | ready => simp only at this ⊢; exact ⟨this.1, by simp [pending, hb, this.2.1]⟩
      | timeout => simp only at this ⊢; exact ⟨this.1, by simp [pending, hb, this.1, this.2.1]⟩
      | hup => trivial
    · have : s.buf.isEmpty = false := by cases hs : s.buf <;> simp_all
      simp only [this, Bool.not_false, if_true]
      exact ⟨hb, rfl⟩

/-- what one read with timeout can report: the next octets of the stream, exactly; or a timeout with
    nothing consumed; or an error -/
theorem readN_nb (fuel : Nat) (s : Sock) (num : Nat) (acc : Bytes) (hf : num - acc.length + 1 ≤ fuel) :
    match readN false fuel s num acc with
    | (.ok x, s') => x = acc ++ (pending s).take (num - acc.length) ∧ num - acc.length ≤ (pending s).length ∧
                     pending s' = (pending s).drop (num - acc.length)
    | (.timeout, s') => acc = [] ∧ pending s' = pending s
    | (.err, _) => True := by
  induction fuel generalizing s acc with
  | zero => omega
  | succ fuel ih =>
    unfold readN
    by_cases hdone : num ≤ acc.length
    · simp only [hdone, if_true]
      have h0 : num - acc.length = 0 := by omega
      simp [h0]
    · simp only [hdone, if_false]
      have hp := poll_nb s
      generalize poll false s = pr at hp
      obtain ⟨p, s'⟩ := pr
      cases p with
      | hup => trivial
      | timeout =>
        simp only at hp ⊢
        by_cases ha : acc.isEmpty = true
        · simp only [ha, if_true]
          exact ⟨by simpa using ha, hp.2⟩
        · simp [ha]
      | ready =>
        simp only at hp ⊢
        obtain ⟨hne, hpend⟩ := hp
        let k := min (num - acc.length) s'.buf.length
        have hk1 : 1 ≤ k := by
          have : 1 ≤ s'.buf.length := by cases hb : s'.buf <;> simp_all
          show 1 ≤ min (num - acc.length) s'.buf.length
          omega
        have hkle : k ≤ s'.buf.length := Nat.min_le_right _ _
        have hkneed : k ≤ num - acc.length := Nat.min_le_left _ _
        let s2 : Sock := { s' with buf := s'.buf.drop k }
        have hp2 : pending s2 = (pending s).drop k := by
          show s'.buf.drop k ++ dataOf s'.script = (pending s).drop k
          rw [← hpend]
          show _ = (s'.buf ++ dataOf s'.script).drop k
          rw [List.drop_append_of_le_length hkle]
        have htake : s'.buf.take k = (pending s).take k := by
          rw [← hpend]
          show _ = (s'.buf ++ dataOf s'.script).take k
          rw [List.take_append_of_le_length hkle]
        have hbl : s'.buf.length ≤ (pending s).length := by rw [← hpend]; simp [pending]
        have hlen2 : (acc ++ s'.buf.take k).length = acc.length + k := by
          simp [List.length_take, Nat.min_eq_left hkle]
        have ih2 := ih s2 (acc ++ s'.buf.take k) (by rw [hlen2]; omega)
        rw [hlen2] at ih2
        show (match readN false fuel s2 num (acc ++ s'.buf.take k) with
          | (.ok x, s'') => x = acc ++ (pending s).take (num - acc.length) ∧ num - acc.length ≤ (pending s).length ∧
                           pending s'' = (pending s).drop (num - acc.length)
          | (.timeout, s'') => acc = [] ∧ pending s'' = pending s
          | (.err, _) => True)
        generalize readN false fuel s2 num (acc ++ s'.buf.take k) = res at ih2
        obtain ⟨r, s3⟩ := res
        cases r with
        | err => trivial
        | timeout =>
          -- impossible: the accumulated octets are not empty any more
          simp only at ih2
          have := congrArg List.length ih2.1
          rw [hlen2] at this
          simp at this
          omega
        | ok x =>
          simp only at ih2 ⊢
          obtain ⟨hx, hen, hp3⟩ := ih2
          rw [hp2, List.length_drop] at hen
          refine ⟨?_, by omega, ?_⟩
          · rw [hx, hp2, htake, List.append_assoc]
            congr 1
            have e1 : num - (acc.length + k) = (num - acc.length) - k := by omega
            have e2 : num - acc.length = k + ((num - acc.length) - k) := by omega
            rw [e1]
            conv => rhs; rw [e2, List.take_add]
          · rw [hp3, hp2, List.drop_drop]
            congr 1; omega

/-- one `radtcpget` with timeout: a packet is always the first frame of the pending stream; a timeout
    consumes nothing; anything else ends the connection -/
theorem radGet_nb (s : Sock) :
    match radGet false s with
    | (.pkt b, s') => frameStep (pending s) = (.pkt b, pending s')
    | (.timeout, s') => pending s' = pending s
    | (.closed _, _) => True := by
  unfold radGet
  have h1 := readN_nb 5 s 4 [] (by simp)
  simp only [List.length_nil, Nat.sub_zero, List.nil_append] at h1
  generalize readN false 5 s 4 [] = r1 at h1
  obtain ⟨res1, s1⟩ := r1
  cases res1 with
  | err => trivial
  | timeout => simp only at h1 ⊢; exact h1.2
  | ok hdr =>
    simp only at h1 ⊢
    obtain ⟨hh, h4, hp1⟩ := h1
    by_cases hbad : radLen hdr < 20 ∨ radLen hdr > 4096
    · simp only [hbad, if_true]
    · simp only [hbad, if_false]
      have h2 := readN_nb (radLen hdr - 4 + 1) s1 (radLen hdr - 4) [] (by simp)
      simp only [List.length_nil, Nat.sub_zero, List.nil_append] at h2
      generalize readN false (radLen hdr - 4 + 1) s1 (radLen hdr - 4) [] = r2 at h2
      obtain ⟨res2, s2⟩ := r2
      cases res2 with
      | err => trivial
      | timeout => trivial
      | ok body =>
        simp only at h2 ⊢
        obtain ⟨hb, hen, hp2⟩ := h2
        rw [hp1, List.length_drop] at hen
        subst hh
        unfold frameStep
        have h4' : ¬ (pending s).length < 4 := by omega
        have hshort : ¬ (pending s).length < radLen ((pending s).take 4) := by omega
        simp only [h4', if_false, hbad, hshort]
        have e : radLen ((pending s).take 4) = 4 + (radLen ((pending s).take 4) - 4) := by omega
        have key : (pending s).take 4 ++ ((pending s).drop 4).take (radLen ((pending s).take 4) - 4) =
            (pending s).take (radLen ((pending s).take 4)) := by
          conv => rhs; rw [e, List.take_add]
        have key2 : pending s2 = (pending s).drop (radLen ((pending s).take 4)) := by
          rw [hp2, hp1, List.drop_drop]
          congr 1; omega
        rw [hb, hp1, key, key2]

theorem frameStep_pkt (p b rest : Bytes) (h : frameStep p = (.pkt b, rest)) : rest.length + 20 ≤ p.length := by
  unfold frameStep at h
  by_cases h4 : p.length < 4
  · simp [h4] at h
  · simp only [h4, if_false] at h
    by_cases hbad : radLen (p.take 4) < 20 ∨ radLen (p.take 4) > 4096
    · simp [hbad] at h
    · simp only [hbad, if_false] at h
      by_cases hshort : p.length < radLen (p.take 4)
      · simp [hshort] at h
      · simp only [hshort, if_false, Prod.mk.injEq] at h
        rw [← h.2, List.length_drop]
        omega

def pktsOf : List Out → List Bytes
  | [] => []
  | .pkt b :: r => b :: pktsOf r
  | _ :: r => pktsOf r

/-- **C16 (reader with timeout).** Whatever the peer's writes, silences and end of stream: the packets
    `tcpclientrd` hands to `replyh` are a prefix of the frame decomposition of the octets written. No partial
    or misframed packet is ever processed. -/
theorem client_packets_prefix_of_framing (fuel : Nat) (s : Sock) (rounds : Nat) (F : Nat)
    (hF : (pending s).length + 1 ≤ F) :
    pktsOf (clientLoop fuel s rounds) <+: pktsOf (framesOut F (pending s)) := by
  induction fuel generalizing s rounds F with
  | zero => simp [clientLoop, pktsOf]
  | succ fuel ih =>
    unfold clientLoop
    have hg := radGet_nb s
    generalize radGet false s = rg at hg
    obtain ⟨o, s'⟩ := rg
    cases o with
    | closed c => simp [pktsOf]
    | timeout =>
      simp only at hg ⊢
      split
      · split
        · simp [pktsOf]
        · simp only [pktsOf]; rw [← hg]; exact ih s' _ F (by rw [hg]; exact hF)
      · simp only [pktsOf]; rw [← hg]; exact ih s' _ F (by rw [hg]; exact hF)
    | pkt b =>
      simp only at hg ⊢
      obtain ⟨F', rfl⟩ : ∃ F', F = F' + 1 := ⟨F - 1, by omega⟩
      rw [framesOut_step, hg]
      simp only [pktsOf]
      -- the frame has at least 20 octets, so the rest is shorter
      have hlen : (pending s').length + 1 ≤ F' := by
        have := frameStep_pkt _ _ _ hg
        omega
      exact List.prefix_cons_inj _ |>.mpr (ih s' rounds F' hlen)

end Rsp.Props.C16
