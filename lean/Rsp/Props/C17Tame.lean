/-
  Property C17, bookkeeping that the whole-history theorem needs besides the counts: no operation other than
  `newrequest` allocates (so the ordinal `newrequest` picks is always fresh), and no operation resizes the
  identifier / duplicate-cache tables or pushes the identifier cursor past 256.
-/
import Rsp.Props.C17Replyh
namespace Rsp.Props.C17
open Rsp Rsp.World Rsp.Refs

/-- `w'` came from `w` without resizing tables, and what is alive now was alive before or was allocated since -/
structure Tame (w w' : World) : Prop where
  live : ∀ o, (getRq w' o).isSome → (getRq w o).isSome ∨ (w.nextOrd ≤ o ∧ o < w'.nextOrd)
  cache : ∀ ci c', getCli w' ci = some c' → ∃ c, getCli w ci = some c ∧ c'.cache.length = c.cache.length
  srv : ∀ si s', getSrv w' si = some s' → ∃ s, getSrv w si = some s ∧ s'.slots.length = s.slots.length ∧ (s.nextid ≤ 256 → s'.nextid ≤ 256)
  ord : w.nextOrd ≤ w'.nextOrd

theorem Stable.tame {w w' : World} (h : Stable w w') : Tame w w' :=
  ⟨fun o hl => by
      obtain ⟨r', hr'⟩ := Option.isSome_iff_exists.mp hl
      obtain ⟨r, hr, _⟩ := h.frm o r' hr'
      rw [hr]; exact Or.inl rfl,
   h.cache, h.srv, Nat.le_of_eq h.ord.symm⟩

theorem Tame.refl (w : World) : Tame w w := (Stable.refl w).tame

theorem Tame.trans {a b c : World} (h1 : Tame a b) (h2 : Tame b c) : Tame a c := by
  refine ⟨?_, ?_, ?_, Nat.le_trans h1.ord h2.ord⟩
  · intro o h
    rcases h2.live o h with hb | ⟨hlo, hhi⟩
    · rcases h1.live o hb with ha | ⟨hlo, hhi⟩
      · exact Or.inl ha
      · exact Or.inr ⟨hlo, Nat.lt_of_lt_of_le hhi h2.ord⟩
    · exact Or.inr ⟨Nat.le_trans h1.ord hlo, hhi⟩
  · intro ci c' h
    obtain ⟨x, hx, e⟩ := h2.cache ci c' h
    obtain ⟨y, hy, e'⟩ := h1.cache ci x hx
    exact ⟨y, hy, e.trans e'⟩
  · intro si s' h
    obtain ⟨x, hx, e, n⟩ := h2.srv si s' h
    obtain ⟨y, hy, e', n'⟩ := h1.srv si x hx
    exact ⟨y, hy, e.trans e', fun hh => n (n' hh)⟩

theorem Tame.wf {w w' : World} (h : Tame w w') (wf : WF w) : WF w' := by
  refine ⟨?_, ?_, ?_⟩
  · intro si s' hs
    obtain ⟨s, hs0, e, _⟩ := h.srv si s' hs
    rw [e]; exact wf.slots si s hs0
  · intro ci c' hc
    obtain ⟨c, hc0, e⟩ := h.cache ci c' hc
    rw [e]; exact wf.cache ci c hc0
  · intro si s' hs
    obtain ⟨s, hs0, _, n⟩ := h.srv si s' hs
    exact n (wf.nextid si s hs0)

/-- every live request object has an ordinal below the next one to be handed out -/
def Fresh (w : World) : Prop := ∀ o, (getRq w o).isSome → o < w.nextOrd

theorem Tame.fresh {w w' : World} (h : Tame w w') (f : Fresh w) : Fresh w' := by
  intro o hl
  rcases h.live o hl with ha | ⟨_, hhi⟩
  · exact Nat.lt_of_lt_of_le (f o ha) h.ord
  · exact hhi

theorem tame_updRq (w : World) (o : Nat) (f : Rq → Rq) : Tame w (updRq w o f) := by
  refine ⟨?_, fun ci c' h => ⟨c', h, rfl⟩, fun si s' h => ⟨s', h, rfl, id⟩, Nat.le_refl _⟩
  intro o' hl
  left
  by_cases ho : o' = o
  · subst ho
    cases hr : getRq w o' with
    | none => rw [getRq_updRq_none w o' o' f hr] at hl; cases hl
    | some r => rfl
  · rw [getRq_updRq_other w o o' f ho] at hl; exact hl

theorem tame_setRq (w : World) (o : Nat) (r1 : Rq) : Tame w (setRq w o r1) := by
  have : setRq w o r1 = updRq w o (fun _ => r1) := rfl
  rw [this]; exact tame_updRq w o _

theorem tame_freerq (w : World) (o : Nat) : Tame w (freerq w o) := (stable_freerq w o).tame

theorem tame_updCli (w : World) (ci : Nat) (f : Client → Client) (hf : ∀ c, (f c).cache.length = c.cache.length) :
    Tame w (updCli w ci f) := (stable_updCli w ci f hf).tame

theorem tame_updSrv (w : World) (si : Nat) (f : Server → Server) (hf : ∀ s, (f s).slots.length = s.slots.length)
    (hn : ∀ s, s.nextid ≤ 256 → (f s).nextid ≤ 256) : Tame w (updSrv w si f) := (stable_updSrv w si f hf hn).tame

theorem tame_same (w w' : World) (hh : w'.heap = w.heap) (hs : w'.servers = w.servers) (hc : w'.clients = w.clients)
    (ho : w'.nextOrd = w.nextOrd := by rfl) : Tame w w' := (stable_same w w' hh hs hc ho).tame

theorem tame_rmclientrq (w : World) (o id : Nat) : Tame w (rmclientrq w o id) := by
  unfold rmclientrq
  simp only
  repeat' first
    | exact Tame.refl w
    | exact Tame.trans (Tame.trans (tame_updCli w _ _ (fun c => by simp)) (tame_updRq _ o _)) (tame_freerq _ _)
    | split

theorem tame_internalSendrq (w : World) (si id o : Nat) : Tame w (internalSendrq w si id o).1 := by
  unfold internalSendrq
  simp only
  repeat' first
    | exact Tame.refl w
    | exact tame_setRq w o _
    | exact Tame.trans (tame_setRq w o _) (tame_updSrv _ si _ (fun s => by simp) (fun _ h => h))
    | split

theorem scanSlots_lt (fuel : Nat) (w : World) (si o i upto j : Nat) (h : (scanSlots w si o fuel i upto).2 = some j) : i ≤ j ∧ j < upto := by
  induction fuel generalizing w i with
  | zero => simp [scanSlots] at h
  | succ n ih =>
    unfold scanSlots at h
    by_cases hge : i ≥ upto
    · simp [hge] at h
    · simp only [hge, if_false] at h
      cases hok : (internalSendrq w si i o).2 with
      | true =>
        simp only [hok, if_true] at h
        cases h
        omega
      | false =>
        simp only [hok, Bool.false_eq_true, if_false] at h
        have := ih _ _ h
        omega

theorem tame_scanSlots (fuel : Nat) (w : World) (si o i upto : Nat) : Tame w (scanSlots w si o fuel i upto).1 := by
  induction fuel generalizing w i with
  | zero => exact Tame.refl w
  | succ n ih =>
    unfold scanSlots
    by_cases hge : i ≥ upto
    · simp only [hge, if_true]; exact Tame.refl w
    · simp only [hge, if_false]
      cases hok : (internalSendrq w si i o).2 with
      | true => simp only [if_true]; exact tame_internalSendrq w si i o
      | false =>
        simp only [Bool.false_eq_true, if_false]
        exact Tame.trans (tame_internalSendrq w si i o) (ih _ _)

theorem tame_sendrqFail (w : World) (o rqid : Nat) : Tame w (sendrqFail w o rqid) := by
  unfold sendrqFail
  simp only
  split
  · exact Tame.trans (tame_rmclientrq w o rqid) (tame_freerq _ o)
  · exact tame_freerq w o

theorem tame_sendrqPlace (w : World) (si o : Nat) (s : Server) (isProbe : Bool) (_hs : getSrv w si = some s) (hn : s.nextid ≤ 256) :
    Tame w (sendrqPlace w si o s isProbe).1 := by
  unfold sendrqPlace
  split
  · exact tame_internalSendrq w si 0 o
  · simp only
    have hstart : startId s ≤ 1 := by unfold startId; split <;> simp
    have hcur : (if s.nextid = 0 then startId s else s.nextid) ≤ 256 := by split <;> omega
    have t0 : Tame w (updSrv w si fun s' => { s' with nextid := if s.nextid = 0 then startId s else s.nextid }) :=
      tame_updSrv w si _ (fun _ => rfl) (fun _ _ => hcur)
    generalize hW0 : (updSrv w si fun s' => { s' with nextid := if s.nextid = 0 then startId s else s.nextid }) = W0 at t0 ⊢
    have t1 := tame_scanSlots 256 W0 si o (if s.nextid = 0 then startId s else s.nextid) 256
    have l1 := scanSlots_lt 256 W0 si o (if s.nextid = 0 then startId s else s.nextid) 256
    generalize scanSlots W0 si o 256 (if s.nextid = 0 then startId s else s.nextid) 256 = r1 at t1 l1 ⊢
    obtain ⟨w1, res1⟩ := r1
    cases res1 with
    | some i =>
      simp only
      have := l1 i rfl
      exact Tame.trans (Tame.trans t0 t1) (tame_updSrv w1 si _ (fun _ => rfl) (fun s' h' => by simp only; split <;> omega))
    | none =>
      simp only
      have t2 := tame_scanSlots 256 w1 si o (startId s) (if s.nextid = 0 then startId s else s.nextid)
      have l2 := scanSlots_lt 256 w1 si o (startId s) (if s.nextid = 0 then startId s else s.nextid)
      generalize scanSlots w1 si o 256 (startId s) (if s.nextid = 0 then startId s else s.nextid) = r2 at t2 l2 ⊢
      obtain ⟨w2, res2⟩ := r2
      cases res2 with
      | some i =>
        simp only
        have := l2 i rfl
        exact Tame.trans (Tame.trans (Tame.trans t0 t1) t2) (tame_updSrv w2 si _ (fun _ => rfl) (fun s' h' => by simp only; split <;> omega))
      | none => exact Tame.trans (Tame.trans t0 t1) t2

theorem tame_sendrq (w : World) (o : Nat) (wf : WF w) : Tame w (sendrq w o) := by
  unfold sendrq
  cases hr : getRq w o with
  | none => exact Tame.refl w
  | some r =>
    simp only
    cases r.to with
    | none => exact tame_sendrqFail w o _
    | some si =>
      simp only
      cases hs : getSrv w si with
      | none => exact tame_sendrqFail w o _
      | some s =>
        simp only
        have key : ∀ b, Tame w (if (sendrqPlace w si o s b).2 = true then updSrv (sendrqPlace w si o s b).1 si (fun s => { s with newrq := true })
            else sendrqFail (sendrqPlace w si o s b).1 o r.rqid.toNat) := by
          intro b
          have t := tame_sendrqPlace w si o s b hs (wf.nextid si s hs)
          split
          · exact Tame.trans t (tame_updSrv _ si _ (fun _ => rfl) (fun _ h => h))
          · exact Tame.trans t (tame_sendrqFail _ o _)
        exact key _

theorem tame_sendrq' {w X : World} (o : Nat) (h : Tame w X) (wf : WF w) : Tame w (sendrq X o) :=
  Tame.trans h (tame_sendrq X o (h.wf wf))

theorem tame_takeRnd (w : World) (n : Nat) : Tame w (takeRnd w n).1 := by
  unfold World.takeRnd
  cases w.rnds with
  | nil => exact Tame.refl w
  | cons r rest => exact tame_same w _ rfl rfl rfl

theorem tame_pairRnd (w : World) (c : Prop) [Decidable c] (x : Bytes) (n : Nat) : Tame w (if c then (w, x) else takeRnd w n).1 := by
  split
  · exact Tame.refl w
  · exact tame_takeRnd w n

attribute [local irreducible] Rewrite.dorewrite Crypt.pwdrecrypt World.sendrq World.rmclientrq World.takeRnd in
theorem tame_radsrvForward (w : World) (o : Nat) (cc : CliConf) (m0 : Radmsg.Msg) (as3 : List Radmsg.Tlv) (ttlres : Int) (si : Nat)
    (wf : WF w) : Tame w (radsrvForward w o cc m0 as3 ttlres si) := by
  unfold radsrvForward
  simp only
  repeat' first
    | exact Tame.refl _
    | exact tame_pairRnd w _ _ _
    | exact tame_takeRnd w _
    | refine Tame.trans ?_ (tame_freerq _ _)
    | refine Tame.trans ?_ (tame_rmclientrq _ _ _)
    | refine Tame.trans ?_ (tame_updRq _ _ _)
    | apply tame_sendrq' _ _ wf
    | split

theorem tame_choosePair (w : World) (x : Option (List Nat)) :
    Tame w (match x with | some l => choosesrv w l | none => (w, none)).1 := by
  cases x with
  | none => exact Tame.refl w
  | some l => exact (stable_choosesrv w l).tame

theorem tame_radsrvForward' {w X : World} (o : Nat) (cc : CliConf) (m0 : Radmsg.Msg) (as3 : List Radmsg.Tlv) (ttlres : Int) (si : Nat)
    (h : Tame w X) (wf : WF w) : Tame w (radsrvForward X o cc m0 as3 ttlres si) :=
  Tame.trans h (tame_radsrvForward X o cc m0 as3 ttlres si (h.wf wf))

attribute [local irreducible] World.radsrvForward World.respond World.choosesrv World.id2realm in
theorem tame_radsrvRoute (w : World) (o : Nat) (cc : CliConf) (m0 : Radmsg.Msg) (as3 : List Radmsg.Tlv) (ttlres : Int) (uname : Bytes)
    (wf : WF w) : Tame w (radsrvRoute w o cc m0 as3 ttlres uname) := by
  unfold radsrvRoute
  simp only
  repeat' first
    | exact Tame.refl _
    | exact tame_choosePair w _
    | refine Tame.trans ?_ (tame_freerq _ _)
    | refine Tame.trans ?_ (stable_respond _ _ _ _ _).tame
    | apply tame_radsrvForward' _ _ _ _ _ _ _ wf
    | split

theorem tame_radsrvRoute' {w X : World} (o : Nat) (cc : CliConf) (m0 : Radmsg.Msg) (as3 : List Radmsg.Tlv) (ttlres : Int) (uname : Bytes)
    (h : Tame w X) (wf : WF w) : Tame w (radsrvRoute X o cc m0 as3 ttlres uname) :=
  Tame.trans h (tame_radsrvRoute X o cc m0 as3 ttlres uname (h.wf wf))

attribute [local irreducible] World.radsrvRoute World.respond Rewrite.dorewrite World.checkttl Rewrite.modAttr World.rmclientrq in
theorem tame_radsrvRewrite (w : World) (o : Nat) (cc : CliConf) (m0 : Radmsg.Msg) (wf : WF w) : Tame w (radsrvRewrite w o cc m0) := by
  unfold radsrvRewrite
  simp only
  repeat' first
    | exact Tame.refl _
    | refine Tame.trans ?_ (tame_freerq _ _)
    | refine Tame.trans ?_ (tame_rmclientrq _ _ _)
    | refine Tame.trans ?_ (tame_updRq _ _ _)
    | refine Tame.trans ?_ (stable_respond _ _ _ _ _).tame
    | apply tame_radsrvRoute' _ _ _ _ _ _ _ wf
    | split

theorem tame_radsrvRewrite' {w X : World} (o : Nat) (cc : CliConf) (m0 : Radmsg.Msg) (h : Tame w X) (wf : WF w) :
    Tame w (radsrvRewrite X o cc m0) := Tame.trans h (tame_radsrvRewrite X o cc m0 (h.wf wf))

attribute [local irreducible] World.radsrvRewrite World.respond World.purgedupcache World.addclientrq in
theorem tame_radsrvCore (w : World) (o ci : Nat) (cc : CliConf) (m0 : Radmsg.Msg) (wf : WF w) : Tame w (radsrvCore w o ci cc m0) := by
  unfold radsrvCore
  simp only
  repeat' first
    | exact Tame.refl _
    | refine Tame.trans ?_ (tame_freerq _ _)
    | refine Tame.trans ?_ (tame_updRq _ _ _)
    | refine Tame.trans ?_ (stable_respond _ _ _ _ _).tame
    | refine Tame.trans ?_ (stable_addclientrq _ _).tame
    | refine Tame.trans ?_ (stable_purgedupcache _ _).tame
    | apply tame_radsrvRewrite' _ _ _ _ wf
    | split

attribute [local irreducible] World.radsrvCore Radmsg.parse in
theorem tame_radsrv (w : World) (o : Nat) (wf : WF w) : Tame w (radsrv w o).1 := by
  unfold radsrv
  cases getRq w o with
  | none => exact Tame.refl w
  | some rq0 =>
    simp only
    repeat' first
      | exact Tame.refl _
      | exact tame_setRq w o _
      | refine Tame.trans ?_ (tame_freerq _ _)
      | exact Tame.trans (tame_setRq w o _) (tame_radsrvCore _ o _ _ _ ((tame_setRq w o _).wf wf))
      | split

/-! ### `replyh` -/

theorem tame_tunnelLoop (a b c d : Bytes) (w : World) (l : List Radmsg.Tlv) : Tame w (tunnelLoop a b c d w l).1 := by
  induction l generalizing w with
  | nil => exact Tame.refl w
  | cons x rest ih =>
    unfold World.tunnelLoop
    split
    · exact ih w
    · have h1 : Tame w (tunnelOne a b c d w x).1 := by
        unfold World.tunnelOne
        simp only
        repeat' first
          | exact tame_takeRnd w 2
          | split
      split
      · rename_i w' heq
        rw [heq] at h1; exact h1
      · rename_i w' a' heq
        rw [heq] at h1; exact Tame.trans h1 (ih w')

theorem tame_tunnelPair (w : World) (c : Prop) [Decidable c] (a b c' d : Bytes) (l : List Radmsg.Tlv) (x : Option (List Radmsg.Tlv)) :
    Tame w (if c then tunnelLoop a b c' d w l else (w, x)).1 := by
  split
  · exact tame_tunnelLoop a b c' d w l
  · exact Tame.refl w

theorem tame_freerqoutdata (w : World) (si i : Nat) : Tame w (freerqoutdata w si i) := (stable_freerqoutdata w si i).tame

attribute [local irreducible] Rewrite.dorewrite World.sendreply World.freerqoutdata in
theorem tame_replyhDeliver (w : World) (si id o : Nat) (rq : Rq) (m : Radmsg.Msg) (cc : CliConf) (as4 : List Radmsg.Tlv) (ttlres : Int) :
    Tame w (replyhDeliver w si id o rq m cc as4 ttlres) := by
  unfold replyhDeliver
  simp only
  repeat' first
    | exact Tame.refl _
    | refine Tame.trans ?_ (tame_freerqoutdata _ _ _)
    | refine Tame.trans ?_ (stable_sendreply _ _).tame
    | refine Tame.trans ?_ (stable_newrqref _ _).tame
    | refine Tame.trans ?_ (tame_updRq _ _ _)
    | split

attribute [local irreducible] World.tunnelLoop World.msLoop Rewrite.dorewrite World.checkttl World.replyhDeliver World.cliConfOf
  World.freerqoutdata in
theorem tame_replyhCore (w : World) (si id o : Nat) (s0 : Server) (rq : Rq) (m : Radmsg.Msg) : Tame w (replyhCore w si id o s0 rq m) := by
  unfold replyhCore
  simp only
  repeat' first
    | exact Tame.refl _
    | refine Tame.trans ?_ (tame_replyhDeliver _ _ _ _ _ _ _ _ _)
    | refine Tame.trans ?_ (tame_tunnelPair _ _ _ _ _ _ _ _)
    | refine Tame.trans ?_ (tame_freerqoutdata _ _ _)
    | refine Tame.trans ?_ (tame_updSrv _ _ _ (fun _ => rfl) (fun _ h => h))
    | split

attribute [local irreducible] World.replyhCore Radmsg.parse in
theorem tame_replyh (w : World) (si : Nat) (buf : Bytes) : Tame w (replyh w si buf).1 := by
  unfold replyh
  cases getSrv w si with
  | none => exact Tame.refl w
  | some s0 =>
    simp only
    repeat' first
      | exact Tame.refl _
      | refine Tame.trans ?_ (tame_replyhCore _ _ _ _ _ _ _)
      | refine Tame.trans ?_ (tame_updSrv _ _ _ (fun _ => rfl) (fun _ h => h))
      | split

end Rsp.Props.C17
