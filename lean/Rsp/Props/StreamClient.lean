/-
  The proxy as stream client (`tcpconnect`, `tcpclientrd` with `closeh`/`timeouth`), properties C04 and C12:
  a packet the reply handler refuses makes the reader re-establish the connection; a re-established connection tells the writer so
  (the reset flag of C12), clears the unanswered count; connections to one server are at least 30 seconds apart.
-/
import Rsp.Model.World
import Rsp.Lemmas.World
namespace Rsp.Props.StreamClient
open Rsp Rsp.World

/-- connection attempts to one server are paced: a connection is established no sooner than 30 s after the previous one -/
theorem connectWait_spacing (now l : Nat) (h : l ≤ now) : now + connectWait now (some l) ≥ l + 30 := by
  unfold connectWait
  simp only
  split <;> omega

/-- … and a first connection, or one long after the last, is not delayed -/
theorem connectWait_first (now : Nat) : connectWait now none = 0 := rfl
theorem connectWait_late (now l : Nat) (h : l + 30 ≤ now) : connectWait now (some l) = 0 := by
  unfold connectWait
  simp only
  split <;> omega

theorem getSrv_event (w : World) (e : String) (si : Nat) : getSrv (event w e) si = getSrv w si := rfl

/-- **C12 (connection-reset flag).** What the connecter leaves behind: the server is connected, nothing counts as unanswered, and the
    writer is told whether the connection was RE-established (that is what makes it transmit everything outstanding again) -/
theorem streamConnect_state (w : World) (si : Nat) (reconnect : Bool) (s : Server) (hs : getSrv w si = some s) :
    ∃ s', getSrv (streamConnect w si reconnect) si = some s' ∧ s'.state = 2 ∧ s'.lost = 0 ∧ s'.conreset = reconnect ∧ s'.slots = s.slots ∧
          s'.connecttime = some (w.now + connectWait w.now s.connecttime) := by
  unfold streamConnect
  rw [hs]
  simp only
  refine ⟨_, getSrv_updSrv_same _ si _ s ?_, rfl, rfl, rfl, rfl, rfl⟩
  split
  · rw [getSrv_event, getSrv_event]; exact hs
  · rw [getSrv_event]; exact hs

/-- **C04 (stream transports).** One step of the reader on a complete packet: it is handed to `replyh`, and if `replyh` refuses it
    (return value 0: decoding, Response Authenticator or Message-Authenticator failed) the connection is re-established before
    anything else is read; what was still unread on the old connection is gone -/
theorem clientRd_refused_resets (w : World) (si fuel : Nat) (s s' : Stream.Sock) (b : Bytes)
    (hgo : ¬ (s.buf.isEmpty ∧ s.script.isEmpty ∧ (!s.closed) = true))
    (hget : Stream.radGet false s = (.pkt b, s'))
    (h0 : (replyh (event w ("got:" ++ toHex b)) si b).2 = 0) :
    clientRd w si (fuel + 1) s =
      clientRd (streamConnect (event (replyh (event w ("got:" ++ toHex b)) si b).1
        ("res:" ++ toString (replyh (event w ("got:" ++ toHex b)) si b).2 ++ "," ++
          toString (grownQueue ((event w ("got:" ++ toHex b)).clients.map (·.replyq.length)) (replyh (event w ("got:" ++ toHex b)) si b).1))) si true)
        si fuel { script := s'.script } := by
  rw [clientRd]
  rw [if_neg hgo, hget]
  simp only [h0, if_true]

/-- … and a packet `replyh` does not refuse leaves the connection alone -/
theorem clientRd_accepted_reads_on (w : World) (si fuel : Nat) (s s' : Stream.Sock) (b : Bytes)
    (hgo : ¬ (s.buf.isEmpty ∧ s.script.isEmpty ∧ (!s.closed) = true))
    (hget : Stream.radGet false s = (.pkt b, s'))
    (h1 : (replyh (event w ("got:" ++ toHex b)) si b).2 ≠ 0) :
    clientRd w si (fuel + 1) s =
      clientRd (event (replyh (event w ("got:" ++ toHex b)) si b).1
        ("res:" ++ toString (replyh (event w ("got:" ++ toHex b)) si b).2 ++ "," ++
          toString (grownQueue ((event w ("got:" ++ toHex b)).clients.map (·.replyq.length)) (replyh (event w ("got:" ++ toHex b)) si b).1)))
        si fuel s' := by
  rw [clientRd]
  rw [if_neg hgo, hget]
  simp only [h1, if_false]

example : connectWait 100 (some 90) = 20 ∧ connectWait 100 (some 60) = 0 := by decide

end Rsp.Props.StreamClient
