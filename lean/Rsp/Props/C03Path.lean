/-
  Property C03 — "hop by hop without changing the plaintext", composed over a whole path of proxies.
  `pwdrecrypt` (tied to the C function by the correspondence) is iterated; nothing else is assumed.
-/
import Rsp.Props.C03
set_option linter.unusedSectionVars false
namespace Rsp.Props.C03
open Rsp Rsp.Crypt Rsp.Spec

/-- what one hop shares with the next: secret, the message's authenticator on that hop, salt -/
structure Hop where
  sec : Bytes
  auth : Bytes
  salt : Bytes

/-- a hidden value carried along a path of proxies: each re-encrypts from the hop it arrived on to the next -/
def recryptPath (md5 : Bytes → Bytes) : Bytes → Hop → List Hop → Option (Bytes × Hop)
  | c, cur, [] => some (c, cur)
  | c, cur, h :: hs =>
    match pwdrecrypt md5 c cur.sec h.sec cur.auth h.auth cur.salt h.salt with
    | none => none
    | some c' => recryptPath md5 c' h hs

variable (md5 : Bytes → Bytes) (hmd5 : ∀ x, (md5 x).length = 16)
include hmd5

theorem pwdrecrypt_some (pwd oldsec newsec oldauth newauth oldsalt newsalt : Bytes)
    (ho : oldsec.length < 256) (hn : newsec.length < 256) (hv : pwdLenValid pwd.length = true) :
    ∃ c', pwdrecrypt md5 pwd oldsec newsec oldauth newauth oldsalt newsalt = some c' ∧ c'.length = pwd.length ∧
      hiddenPlain md5 newsec newauth newsalt c' = hiddenPlain md5 oldsec oldauth oldsalt pwd := by
  have h := pwdrecrypt_meets_spec md5 hmd5 pwd oldsec newsec oldauth newauth oldsalt newsalt ho hn
  unfold pwdrecryptOk at h
  rw [hv] at h
  simp only [if_true] at h
  cases hr : pwdrecrypt md5 pwd oldsec newsec oldauth newauth oldsalt newsalt with
  | none => rw [hr] at h; simp at h
  | some c' =>
    rw [hr] at h
    simp only [Bool.and_eq_true, beq_iff_eq] at h
    exact ⟨c', rfl, h.1, h.2⟩

/-- End to end over ANY number of hops: the value that leaves the last proxy decrypts, under the
    last hop's secret, authenticator and salt, to exactly what the value that entered the first one
    decrypts to under the first hop's — and has the same length. -/
theorem recryptPath_end_to_end (c : Bytes) (cur : Hop) (hs : List Hop)
    (hv : pwdLenValid c.length = true) (hc : cur.sec.length < 256) (hall : ∀ h ∈ hs, h.sec.length < 256) :
    ∃ c' last, recryptPath md5 c cur hs = some (c', last) ∧ c'.length = c.length ∧
      last.sec = (hs.getLast?.getD cur).sec ∧
      hiddenPlain md5 last.sec last.auth last.salt c' = hiddenPlain md5 cur.sec cur.auth cur.salt c := by
  induction hs generalizing c cur with
  | nil => exact ⟨c, cur, rfl, rfl, rfl, rfl⟩
  | cons h t ih =>
    obtain ⟨c1, h1, hl1, hp1⟩ := pwdrecrypt_some md5 hmd5 c cur.sec h.sec cur.auth h.auth cur.salt h.salt hc
      (hall h List.mem_cons_self) hv
    obtain ⟨c', last, hr, hl, hlast, hp⟩ := ih c1 h (by rw [hl1]; exact hv) (hall h List.mem_cons_self)
      (fun x hx => hall x (List.mem_cons_of_mem _ hx))
    refine ⟨c', last, ?_, by rw [hl, hl1], ?_, by rw [hp, hp1]⟩
    · simp only [recryptPath, h1]; exact hr
    · rw [hlast]; cases t <;> simp [List.getLast?]

/-- Non-vacuity: the hypotheses are met by a 16-octet value, two hops. -/
example : ∃ c' last, recryptPath (fun _ => List.replicate 16 7) (List.replicate 16 1) ⟨[1], [2], []⟩ [⟨[3], [4], []⟩, ⟨[5], [6], []⟩] = some (c', last) ∧
    c'.length = 16 ∧ last.sec = [5] := by
  obtain ⟨c', last, h1, h2, h3, _⟩ := recryptPath_end_to_end (fun _ => List.replicate 16 7) (by simp) (List.replicate 16 1)
    ⟨[1], [2], []⟩ [⟨[3], [4], []⟩, ⟨[5], [6], []⟩] (by decide) (by decide) (by decide)
  exact ⟨c', last, h1, by simpa using h2, by simpa using h3⟩

/-! ### MS-MPPE keys along a path (the salt travels inside the value, unchanged) -/

omit hmd5 in
/-- hops for MS-MPPE keys: each re-encrypts value = salt ‖ ciphertext from the hop it arrived on to the next -/
def msmppPath (md5 : Bytes → Bytes) : Bytes → Hop → List Hop → Option (Bytes × Hop)
  | v, cur, [] => some (v, cur)
  | v, cur, h :: hs =>
    match msmpprecrypt md5 v cur.sec h.sec cur.auth h.auth with
    | none => none
    | some v' => msmppPath md5 v' h hs

theorem msmpprecrypt_some (v oldsec newsec oldauth newauth : Bytes)
    (ho : oldsec.length < 256) (hn : newsec.length < 256) (hv : msmppLenValid v.length = true) :
    ∃ v', msmpprecrypt md5 v oldsec newsec oldauth newauth = some v' ∧ v'.length = v.length ∧ v'.take 2 = v.take 2 ∧
      hiddenPlain md5 newsec newauth (v'.take 2) (v'.drop 2) = hiddenPlain md5 oldsec oldauth (v.take 2) (v.drop 2) := by
  have h := msmpprecrypt_meets_spec md5 hmd5 v oldsec newsec oldauth newauth ho hn
  unfold msmpprecryptOk at h
  rw [hv] at h
  simp only [if_true] at h
  cases hr : msmpprecrypt md5 v oldsec newsec oldauth newauth with
  | none => rw [hr] at h; simp at h
  | some v' =>
    rw [hr] at h
    simp only [Bool.and_eq_true, beq_iff_eq] at h
    exact ⟨v', rfl, h.1.1, h.1.2, h.2⟩

/-- End to end for MS-MPPE-Send/Recv-Key over ANY number of hops: same salt, same length, and the key
    the last hop's peer decrypts is the key the first hop's peer encrypted. -/
theorem msmppPath_end_to_end (v : Bytes) (cur : Hop) (hs : List Hop)
    (hv : msmppLenValid v.length = true) (hc : cur.sec.length < 256) (hall : ∀ h ∈ hs, h.sec.length < 256) :
    ∃ v' last, msmppPath md5 v cur hs = some (v', last) ∧ v'.length = v.length ∧ v'.take 2 = v.take 2 ∧
      hiddenPlain md5 last.sec last.auth (v'.take 2) (v'.drop 2) = hiddenPlain md5 cur.sec cur.auth (v.take 2) (v.drop 2) := by
  induction hs generalizing v cur with
  | nil => exact ⟨v, cur, rfl, rfl, rfl, rfl⟩
  | cons h t ih =>
    obtain ⟨v1, h1, hl1, hs1, hp1⟩ := msmpprecrypt_some md5 hmd5 v cur.sec h.sec cur.auth h.auth hc
      (hall h List.mem_cons_self) hv
    obtain ⟨v', last, hr, hl, hsalt, hp⟩ := ih v1 h (by rw [hl1]; exact hv) (hall h List.mem_cons_self)
      (fun x hx => hall x (List.mem_cons_of_mem _ hx))
    refine ⟨v', last, ?_, by rw [hl, hl1], by rw [hsalt, hs1], by rw [hp, hp1]⟩
    simp only [msmppPath, h1]; exact hr

end Rsp.Props.C03
